import Nject.Condense
/-
  Lemmas about `netFlows` (flows.go) behind C19.
-/
namespace Nject

def IMap.keys (m : IMap) : List Ty := m.map (·.1)

theorem IMap.keys_add (m : IMap) (t : Ty) (layer p : Nat) (x : Ty) :
    x ∈ (m.add t layer p).keys ↔ x ∈ m.keys ∨ x = t := by
  unfold IMap.add IMap.keys
  split
  · rename_i h
    simp only [List.map_map, List.mem_map, Function.comp]
    constructor
    · rintro ⟨e, he, hx⟩
      split at hx
      · right; exact hx.symm
      · left; exact ⟨e, he, hx⟩
    · rintro (⟨e, he, hx⟩ | hx)
      · refine ⟨e, he, ?_⟩
        split
        · rename_i h'; simp at h'; rw [← hx, h']
        · exact hx
      · simp only [List.any_eq_true, beq_iff_eq] at h
        obtain ⟨e, he, het⟩ := h
        refine ⟨e, he, ?_⟩
        simp [het, hx]
  · simp only [List.map_append, List.mem_append, List.mem_map, List.map_cons, List.map_nil, List.mem_singleton]

/-- what `bestMatch` finds is something an earlier member produces, and it is the wanted type or
    implements the wanted interface -/
theorem bestMatch_found (ti : TyInfo) (loose : Nat → List Ty) (m : IMap) (want t : Ty) (deps : List Nat)
    (h : bestMatch ti loose m want = some (t, deps)) :
    t ∈ m.keys ∧ (t = want ∨ (ti.isIface want = true ∧ ti.implements t want = true)) := by
  unfold bestMatch at h
  split at h
  · rename_i e he
    simp only [Option.some.injEq, Prod.mk.injEq] at h
    have := List.find?_some he
    have hm := List.mem_of_find?_eq_some he
    simp only [beq_iff_eq] at this
    exact ⟨by unfold IMap.keys; exact List.mem_map.mpr ⟨e, hm, by rw [this, h.1]⟩, Or.inl h.1.symm⟩
  · split at h
    · cases h
    · rename_i hif
      simp only at h
      -- the fold keeps an element of the candidate list
      have key : ∀ (cands : List (Ty × Nat × List Nat)) (b0 : Option (Ty × Nat × List Nat)) (be : Ty × Nat × List Nat),
          cands.foldl (fun (b : Option (Ty × Nat × List Nat)) e =>
            match b with
            | none => some e
            | some be =>
              if scoreGE [e.2.1, ti.numMethods e.1, e.1] [be.2.1, ti.numMethods be.1, be.1] then some e else some be) b0 = some be →
          be ∈ cands ∨ b0 = some be := by
        intro cands
        induction cands with
        | nil => intro b0 be hb; right; exact hb
        | cons c cs ih =>
          intro b0 be hb
          simp only [List.foldl_cons] at hb
          rcases ih _ _ hb with h1 | h1
          · left; exact List.mem_cons_of_mem _ h1
          · cases b0 with
            | none => simp at h1; left; rw [← h1]; exact List.mem_cons_self
            | some b =>
              simp only at h1
              split at h1
              · simp at h1; left; rw [← h1]; exact List.mem_cons_self
              · right; exact h1
      split at h
      · cases h
      · rename_i be hbe
        split at h
        · cases h
        · simp only [Option.some.injEq, Prod.mk.injEq] at h
          rcases key _ _ _ hbe with hmem | hnone
          · have hf := List.mem_filter.mp hmem
            refine ⟨by unfold IMap.keys; exact List.mem_map.mpr ⟨be, hf.1, h.1⟩, Or.inr ⟨by simpa using hif, ?_⟩⟩
            rw [← h.1]; exact hf.2
          · cases hnone

theorem resolveInput_cases (ti : TyInfo) (loose : Nat → List Ty) (m : IMap) (y : Ty) :
    resolveInput ti loose m y = y ∨
    (resolveInput ti loose m y ∈ m.keys ∧ ti.isIface y = true ∧ ti.implements (resolveInput ti loose m y) y = true) := by
  unfold resolveInput
  split
  · rename_i t deps h
    obtain ⟨hk, hr⟩ := bestMatch_found ti loose m y t deps h
    rcases hr with hr | hr
    · left; exact hr
    · right; exact ⟨hk, hr⟩
  · left; rfl

/-! ### the two inner loops -/

theorem netInputs_spec (ti : TyInfo) (loose : Nat → List Ty) :
    ∀ (ins : List Ty) (s : NF) (ibt : List Ty),
    (netInputs ti loose ins s ibt).1.avail = s.avail
    ∧ (netInputs ti loose ins s ibt).1.uniqueOut = s.uniqueOut
    ∧ (∃ added, (netInputs ti loose ins s ibt).1.uniqueIn = s.uniqueIn ++ added
        ∧ ∀ x ∈ added, x ∉ s.uniqueOut ∧ x ∉ s.uniqueIn ∧ ∃ y ∈ ins, x = resolveInput ti loose s.avail y)
    ∧ (∀ y ∈ ins, resolveInput ti loose s.avail y ∈ (netInputs ti loose ins s ibt).1.uniqueIn
                 ∨ resolveInput ti loose s.avail y ∈ s.uniqueOut)
    ∧ (∀ y ∈ ins, resolveInput ti loose s.avail y ∈ (netInputs ti loose ins s ibt).2)
    ∧ (∀ t ∈ (netInputs ti loose ins s ibt).2, t ∈ ibt ∨ ∃ y ∈ ins, t = resolveInput ti loose s.avail y) := by
  intro ins
  induction ins with
  | nil =>
    intro s ibt
    refine ⟨by simp [netInputs], by simp [netInputs], ⟨[], by simp [netInputs], ?_⟩, ?_, ?_, ?_⟩
    · intro x hx; cases hx
    · intro y hy; cases hy
    · intro y hy; cases hy
    · intro t ht; left; simpa [netInputs] using ht
  | cons y ys ih =>
    intro s ibt
    simp only [netInputs]
    split
    · rename_i hc
      obtain ⟨a, b, ⟨added, c1, c2⟩, d, e, f⟩ := ih s (resolveInput ti loose s.avail y :: ibt)
      refine ⟨a, b, ⟨added, c1, ?_⟩, ?_, ?_, ?_⟩
      · intro x hx
        obtain ⟨h1, h2, y', hy', hxy⟩ := c2 x hx
        exact ⟨h1, h2, y', List.mem_cons_of_mem _ hy', hxy⟩
      · intro y' hy'
        rcases List.mem_cons.mp hy' with h | h
        · subst h
          simp only [Bool.or_eq_true, List.contains_iff_mem] at hc
          rcases hc with hc | hc
          · right; exact hc
          · left; rw [c1]; exact List.mem_append.mpr (Or.inl hc)
        · exact d y' h
      · intro y' hy'
        rcases List.mem_cons.mp hy' with h | h
        · subst h
          -- the head was pushed onto ibt and is kept
          have : ∀ (zs : List Ty) (s0 : NF) (acc : List Ty) (t : Ty), t ∈ acc → t ∈ (netInputs ti loose zs s0 acc).2 := by
            intro zs
            induction zs with
            | nil => intro s0 acc t ht; simpa [netInputs] using ht
            | cons z zs ihz =>
              intro s0 acc t ht
              simp only [netInputs]
              split <;> exact ihz _ _ t (List.mem_cons_of_mem _ ht)
          exact this ys s _ _ List.mem_cons_self
        · exact e y' h
      · intro t ht
        rcases f t ht with h | ⟨y', hy', h⟩
        · rcases List.mem_cons.mp h with h | h
          · right; exact ⟨y, List.mem_cons_self, h⟩
          · left; exact h
        · right; exact ⟨y', List.mem_cons_of_mem _ hy', h⟩
    · rename_i hc
      simp only [Bool.or_eq_true, List.contains_iff_mem, not_or] at hc
      obtain ⟨a, b, ⟨added, c1, c2⟩, d, e, f⟩ :=
        ih { s with uniqueIn := s.uniqueIn ++ [resolveInput ti loose s.avail y] } (resolveInput ti loose s.avail y :: ibt)
      simp only at a b c1 c2 d e f
      refine ⟨a, b, ⟨resolveInput ti loose s.avail y :: added, by rw [c1]; simp, ?_⟩, ?_, ?_, ?_⟩
      · intro x hx
        rcases List.mem_cons.mp hx with h | h
        · subst h; exact ⟨hc.1, hc.2, y, List.mem_cons_self, rfl⟩
        · obtain ⟨h1, h2, y', hy', hxy⟩ := c2 x h
          exact ⟨h1, fun hh => h2 (List.mem_append.mpr (Or.inl hh)), y', List.mem_cons_of_mem _ hy', hxy⟩
      · intro y' hy'
        rcases List.mem_cons.mp hy' with h | h
        · subst h; left; rw [c1]; simp
        · exact d y' h
      · intro y' hy'
        rcases List.mem_cons.mp hy' with h | h
        · subst h
          have : ∀ (zs : List Ty) (s0 : NF) (acc : List Ty) (t : Ty), t ∈ acc → t ∈ (netInputs ti loose zs s0 acc).2 := by
            intro zs
            induction zs with
            | nil => intro s0 acc t ht; simpa [netInputs] using ht
            | cons z zs ihz =>
              intro s0 acc t ht
              simp only [netInputs]
              split <;> exact ihz _ _ t (List.mem_cons_of_mem _ ht)
          exact this ys _ _ _ List.mem_cons_self
        · exact e y' h
      · intro t ht
        rcases f t ht with h | ⟨y', hy', h⟩
        · rcases List.mem_cons.mp h with h | h
          · right; exact ⟨y, List.mem_cons_self, h⟩
          · left; exact h
        · right; exact ⟨y', List.mem_cons_of_mem _ hy', h⟩

theorem netOutputs_spec (i : Nat) (ibt : List Ty) :
    ∀ (outs : List Ty) (s : NF),
    (netOutputs i ibt outs s).uniqueIn = s.uniqueIn
    ∧ (∀ x, x ∈ (netOutputs i ibt outs s).avail.keys ↔ x ∈ s.avail.keys ∨ x ∈ outs)
    ∧ (∃ added, (netOutputs i ibt outs s).uniqueOut = s.uniqueOut ++ added ∧ ∀ x ∈ added, x ∈ outs)
    ∧ (∀ t ∈ outs, t ∈ ibt ∨ t ∈ s.uniqueIn ∨ t ∈ (netOutputs i ibt outs s).uniqueOut) := by
  intro outs
  induction outs with
  | nil =>
    intro s
    refine ⟨by simp [netOutputs], ?_, ⟨[], by simp [netOutputs], ?_⟩, ?_⟩
    · intro x; simp [netOutputs]
    · intro x hx; cases hx
    · intro t ht; cases ht
  | cons o os ih =>
    intro s
    simp only [netOutputs]
    split
    · rename_i hc
      simp only [Bool.or_eq_true, List.contains_iff_mem] at hc
      obtain ⟨a, b, ⟨added, c1, c2⟩, d⟩ := ih { s with avail := s.avail.add o i i }
      simp only at a b c1 c2 d
      refine ⟨a, ?_, ⟨added, c1, fun x hx => List.mem_cons_of_mem _ (c2 x hx)⟩, ?_⟩
      · intro x; rw [b x, IMap.keys_add]; simp only [List.mem_cons]
        constructor
        · rintro ((h | h) | h)
          · left; exact h
          · right; left; exact h
          · right; right; exact h
        · rintro (h | h | h)
          · left; left; exact h
          · left; right; exact h
          · right; exact h
      · intro t ht
        rcases List.mem_cons.mp ht with h | h
        · subst h
          rcases hc with (hc | hc) | hc
          · left; exact hc
          · right; left; exact hc
          · right; right; rw [c1]; exact List.mem_append.mpr (Or.inl hc)
        · exact d t h
    · obtain ⟨a, b, ⟨added, c1, c2⟩, d⟩ := ih { s with avail := s.avail.add o i i, uniqueOut := s.uniqueOut ++ [o] }
      simp only at a b c1 c2 d
      refine ⟨a, ?_, ⟨o :: added, by rw [c1]; simp, ?_⟩, ?_⟩
      · intro x; rw [b x, IMap.keys_add]; simp only [List.mem_cons]
        constructor
        · rintro ((h | h) | h)
          · left; exact h
          · right; left; exact h
          · right; right; exact h
        · rintro (h | h | h)
          · left; left; exact h
          · left; right; exact h
          · right; exact h
      · intro x hx
        rcases List.mem_cons.mp hx with h | h
        · rw [h]; exact List.mem_cons_self
        · exact List.mem_cons_of_mem _ (c2 x h)
      · intro t ht
        rcases List.mem_cons.mp ht with h | h
        · subst h; right; right; rw [c1]; simp
        · exact d t h

end Nject

namespace Nject

theorem getElem?_snoc {α} (l : List α) (a x : α) (j : Nat) :
    (l ++ [a])[j]? = some x ↔ l[j]? = some x ∨ (j = l.length ∧ x = a) := by
  by_cases h : j < l.length
  · rw [List.getElem?_append_left h]
    constructor
    · exact Or.inl
    · rintro (h1 | ⟨h1, _⟩)
      · exact h1
      · omega
  · rw [List.getElem?_append_right (by omega)]
    have hn : l[j]? = none := List.getElem?_eq_none (by omega)
    rw [hn]
    constructor
    · intro h1
      right
      by_cases hj : j = l.length
      · subst hj; simp at h1; exact ⟨rfl, h1.symm⟩
      · have : j - l.length ≥ 1 := by omega
        have : [a][j - l.length]? = none := List.getElem?_eq_none (by simp; omega)
        rw [this] at h1; cases h1
    · rintro (h1 | ⟨h1, h2⟩)
      · cases h1
      · subst h1; subst h2; simp

/-- invariant of the `netFlows` loop after the members `done` -/
abbrev Mem := List Ty × List Ty

structure NInv (ti : TyInfo) (done : List Mem) (s : NF) : Prop where
  keys : ∀ t, t ∈ s.avail.keys ↔ ∃ (j : Nat) (io : Mem), done[j]? = some io ∧ t ∈ io.2
  outs_seen : ∀ (j : Nat) (io : Mem), done[j]? = some io → ∀ t ∈ io.2, t ∈ s.uniqueIn ∨ t ∈ s.uniqueOut
  uout : ∀ t ∈ s.uniqueOut, ∃ (j : Nat) (io : Mem), done[j]? = some io ∧ t ∈ io.2
  exact : ∀ x ∈ s.uniqueIn, ∃ (i : Nat) (io : Mem), done[i]? = some io ∧ x ∈ io.1
      ∧ ∀ (j : Nat) (jo : Mem), j < i → done[j]? = some jo → x ∉ jo.2
  suff : ∀ (i : Nat) (io : Mem), done[i]? = some io → ∀ y ∈ io.1, ∃ x',
      (x' ∈ s.uniqueIn ∨ ∃ (j : Nat) (jo : Mem), j < i ∧ done[j]? = some jo ∧ x' ∈ jo.2)
      ∧ (x' = y ∨ (ti.isIface y = true ∧ ti.implements x' y = true))

theorem NInv.init (ti : TyInfo) : NInv ti [] {} := by
  refine ⟨?_, ?_, ?_, ?_, ?_⟩
  · intro t; simp [IMap.keys]
  · intro j io h; simp at h
  · intro t h; cases h
  · intro x h; cases h
  · intro i io h; simp at h

theorem netMember_inv (ti : TyInfo) (loose : Nat → List Ty) (done : List (List Ty × List Ty)) (s : NF)
    (io : List Ty × List Ty) (inv : NInv ti done s) :
    NInv ti (done ++ [io]) (netMember ti loose s done.length io) := by
  unfold netMember
  obtain ⟨a1, b1, ⟨addedIn, c1, c2⟩, d1, e1, f1⟩ := netInputs_spec ti loose io.1 s []
  generalize hni : netInputs ti loose io.1 s [] = r at a1 b1 c1 d1 e1 f1
  obtain ⟨s1, ibt⟩ := r
  simp only at a1 b1 c1 d1 e1 f1 ⊢
  obtain ⟨a2, b2, ⟨addedOut, c3, c4⟩, d2⟩ := netOutputs_spec done.length ibt io.2 s1
  have old_seen : ∀ t, (∃ (j : Nat) (jo : Mem), done[j]? = some jo ∧ t ∈ jo.2) → t ∈ s.uniqueIn ∨ t ∈ s.uniqueOut := by
    rintro t ⟨j, jo, h1, h2⟩; exact inv.outs_seen j jo h1 t h2
  refine ⟨?_, ?_, ?_, ?_, ?_⟩
  · intro t
    rw [b2 t, a1, inv.keys t]
    constructor
    · rintro (⟨j, jo, h1, h2⟩ | h)
      · exact ⟨j, jo, (getElem?_snoc _ _ _ _).mpr (Or.inl h1), h2⟩
      · exact ⟨done.length, io, (getElem?_snoc _ _ _ _).mpr (Or.inr ⟨rfl, rfl⟩), h⟩
    · rintro ⟨j, jo, h1, h2⟩
      rcases (getElem?_snoc _ _ _ _).mp h1 with h | ⟨_, h⟩
      · left; exact ⟨j, jo, h, h2⟩
      · right; rw [← h]; exact h2
  · intro j jo h1 t ht
    rw [a2, c1, c3, b1]
    rcases (getElem?_snoc _ _ _ _).mp h1 with h | ⟨_, h⟩
    · rcases inv.outs_seen j jo h t ht with h' | h'
      · left; exact List.mem_append.mpr (Or.inl h')
      · right; exact List.mem_append.mpr (Or.inl h')
    · subst h
      rcases d2 t ht with h' | h' | h'
      · -- the type is also an input of this member
        rcases f1 t h' with h'' | ⟨y, hy, hty⟩
        · cases h''
        · rcases d1 y hy with h3 | h3
          · left; rw [← c1, hty]; exact h3
          · right; rw [hty]; exact List.mem_append.mpr (Or.inl h3)
      · left; rw [← c1]; exact h'
      · right; rw [← b1, ← c3]; exact h'
  · intro t ht
    rw [c3, b1] at ht
    rcases List.mem_append.mp ht with h | h
    · obtain ⟨j, jo, h1, h2⟩ := inv.uout t h
      exact ⟨j, jo, (getElem?_snoc _ _ _ _).mpr (Or.inl h1), h2⟩
    · exact ⟨done.length, io, (getElem?_snoc _ _ _ _).mpr (Or.inr ⟨rfl, rfl⟩), c4 t h⟩
  · intro x hx
    rw [a2, c1] at hx
    rcases List.mem_append.mp hx with h | h
    · obtain ⟨i, jo, h1, h2, h3⟩ := inv.exact x h
      refine ⟨i, jo, (getElem?_snoc _ _ _ _).mpr (Or.inl h1), h2, ?_⟩
      intro j jo' hji hj'
      have hi : i < done.length := (List.getElem?_eq_some_iff.mp h1).1
      rcases (getElem?_snoc _ _ _ _).mp hj' with h' | ⟨h', _⟩
      · exact h3 j jo' hji h'
      · omega
    · obtain ⟨hno, hni', y, hy, hxy⟩ := c2 x h
      have hnot : ¬ ∃ (j : Nat) (jo : Mem), done[j]? = some jo ∧ x ∈ jo.2 := by
        intro hex
        rcases old_seen x hex with h' | h'
        · exact hni' h'
        · exact hno h'
      have hxe : x = y := by
        rcases resolveInput_cases ti loose s.avail y with h' | ⟨h', _⟩
        · rw [hxy, h']
        · rw [← hxy] at h'
          exact absurd ((inv.keys x).mp h') hnot
      refine ⟨done.length, io, (getElem?_snoc _ _ _ _).mpr (Or.inr ⟨rfl, rfl⟩), by rw [hxe]; exact hy, ?_⟩
      intro j jo hj hjo hx'
      rcases (getElem?_snoc _ _ _ _).mp hjo with h' | ⟨h', _⟩
      · exact hnot ⟨j, jo, h', hx'⟩
      · omega
  · intro i jo h1 y hy
    rw [a2, c1]
    rcases (getElem?_snoc _ _ _ _).mp h1 with h | ⟨hi, h⟩
    · obtain ⟨x', hx1, hx2⟩ := inv.suff i jo h y hy
      refine ⟨x', ?_, hx2⟩
      rcases hx1 with h' | ⟨j, jo', hj, hjo, hx'⟩
      · left; exact List.mem_append.mpr (Or.inl h')
      · right; exact ⟨j, jo', hj, (getElem?_snoc _ _ _ _).mpr (Or.inl hjo), hx'⟩
    · subst h
      refine ⟨resolveInput ti loose s.avail y, ?_, ?_⟩
      · rcases d1 y hy with h' | h'
        · left; rw [← c1]; exact h'
        · right
          obtain ⟨j, jo', hjo, hx'⟩ := inv.uout _ h'
          have hj : j < done.length := (List.getElem?_eq_some_iff.mp hjo).1
          exact ⟨j, jo', by omega, (getElem?_snoc _ _ _ _).mpr (Or.inl hjo), hx'⟩
      · rcases resolveInput_cases ti loose s.avail y with h' | ⟨_, h'⟩
        · left; exact h'
        · right; exact h'

theorem netFrom_inv (ti : TyInfo) (loose : Nat → List Ty) :
    ∀ (rest done : List (List Ty × List Ty)) (s : NF), NInv ti done s →
      NInv ti (done ++ rest) (netFrom ti loose rest done.length s)
  | [], done, s, inv => by simpa [netFrom] using inv
  | io :: rest, done, s, inv => by
    have h := netFrom_inv ti loose rest (done ++ [io]) _ (netMember_inv ti loose done s io inv)
    simp only [List.length_append, List.length_cons, List.length_nil, List.append_assoc, List.cons_append,
      List.nil_append] at h
    simpa [netFrom] using h

end Nject

namespace Nject

theorem retFold_mem (above : List Ty) : ∀ (ret acc : List Ty) (t : Ty),
    t ∈ ret.foldl (fun acc t => if above.contains t || acc.contains t then acc else acc ++ [t]) acc
      ↔ t ∈ acc ∨ (t ∈ ret ∧ t ∉ above)
  | [], acc, t => by simp
  | r :: rs, acc, t => by
    simp only [List.foldl_cons]
    rw [retFold_mem above rs _ t]
    split
    · rename_i hc
      simp only [Bool.or_eq_true, List.contains_iff_mem] at hc
      constructor
      · rintro (h | ⟨h1, h2⟩)
        · left; exact h
        · right; exact ⟨List.mem_cons_of_mem _ h1, h2⟩
      · rintro (h | ⟨h1, h2⟩)
        · left; exact h
        · rcases List.mem_cons.mp h1 with h | h
          · subst h
            rcases hc with hc | hc
            · exact absurd hc h2
            · left; exact hc
          · right; exact ⟨h, h2⟩
    · rename_i hc
      simp only [Bool.or_eq_true, List.contains_iff_mem, not_or] at hc
      constructor
      · rintro (h | ⟨h1, h2⟩)
        · rcases List.mem_append.mp h with h | h
          · left; exact h
          · simp at h; subst h; right; exact ⟨List.mem_cons_self, hc.1⟩
        · right; exact ⟨List.mem_cons_of_mem _ h1, h2⟩
      · rintro (h | ⟨h1, h2⟩)
        · left; exact List.mem_append.mpr (Or.inl h)
        · rcases List.mem_cons.mp h1 with h | h
          · subst h; left; simp
          · right; exact ⟨h, h2⟩

theorem returnedGo_mem : ∀ (ms : List Mem) (above acc : List Ty) (t : Ty),
    t ∈ returnedToSurroundings.go ms above acc ↔
      t ∈ acc ∨ ∃ (k : Nat) (rk : Mem), ms[k]? = some rk ∧ t ∈ rk.2 ∧ t ∉ above
                  ∧ ∀ (j : Nat) (jo : Mem), j < k → ms[j]? = some jo → t ∉ jo.1
  | [], above, acc, t => by simp [returnedToSurroundings.go]
  | (recv, ret) :: rest, above, acc, t => by
    simp only [returnedToSurroundings.go]
    rw [returnedGo_mem rest _ _ t, retFold_mem]
    constructor
    · rintro ((h | ⟨h1, h2⟩) | ⟨k, rk, h1, h2, h3, h4⟩)
      · left; exact h
      · right; exact ⟨0, (recv, ret), rfl, h1, h2, by intro j jo hj; omega⟩
      · right
        refine ⟨k + 1, rk, by simpa using h1, h2, fun h => h3 (List.mem_append.mpr (Or.inl h)), ?_⟩
        intro j jo hj hjo
        cases j with
        | zero =>
          simp at hjo; subst hjo
          exact fun h => h3 (List.mem_append.mpr (Or.inr h))
        | succ j => exact h4 j jo (by omega) (by simpa using hjo)
    · rintro (h | ⟨k, rk, h1, h2, h3, h4⟩)
      · left; left; exact h
      · cases k with
        | zero =>
          simp at h1; subst h1
          left; right; exact ⟨h2, h3⟩
        | succ k =>
          right
          refine ⟨k, rk, by simpa using h1, h2, ?_, ?_⟩
          · intro h
            rcases List.mem_append.mp h with h | h
            · exact h3 h
            · exact h4 0 (recv, ret) (by omega) rfl h
          · intro j jo hj hjo
            exact h4 (j + 1) jo (by omega) (by simpa using hjo)

end Nject
