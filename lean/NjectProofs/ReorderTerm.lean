import NjectProofs.ReorderProofs
/-
  `topo.run` ends: with the fuel `reorderFuel` gives it, the loop of the transcription reaches the
  state in which both heaps and the list of fixed providers are empty (`fuelOut = false`).

  Measure: the entries waiting in the two heaps and in `cannotReorder`, plus, for every node that has
  not been processed yet, the number of pushes its processing can cause (one per member of its
  `before` set, one per output / received type).  Every iteration takes one entry away; processing a
  node for the first time converts its share of the second part into at most as many new entries.
-/
namespace Nject

/-- pushes the first processing of node `i` can cause -/
def nodeW (s : TopoS) (i : Nat) : Nat := (s.before.get i).length + (s.outOf i).length + (s.recvOf i).length

def pendingW (s : TopoS) (bound : Nat) (done : List Nat) : Nat :=
  (((List.range bound).filter fun i => !done.contains i).map (nodeW s)).sum

def queued (x : Topo) : Nat := x.unblocked.length + x.weakBlocked.length + x.cannotReorder.length

def work (s : TopoS) (bound : Nat) (x : Topo) : Nat := queued x + pendingW s bound x.done

/-! ### `release` and its folds add at most one entry each -/

theorem release_queued (s : TopoS) (x : Topo) (n' i : Nat) :
    queued (x.release s n' i) ≤ queued x + 1 ∧ (x.release s n' i).done = x.done ∧ (x.release s n' i).fuelOut = x.fuelOut := by
  unfold Topo.release
  split
  · unfold Topo.pushU queued
    refine ⟨?_, rfl, rfl⟩
    simp only [List.length_cons]; omega
  · simp only []
    split
    · split
      · unfold Topo.pushU queued
        refine ⟨?_, rfl, rfl⟩
        simp only [List.length_cons]; omega
      · unfold Topo.pushW queued
        refine ⟨?_, rfl, rfl⟩
        simp only [List.length_cons]; omega
    · refine ⟨?_, rfl, rfl⟩
      unfold queued; simp only []; omega

theorem foldl_release_queued (s : TopoS) (i : Nat) : ∀ (l : List Nat) (x : Topo),
    queued (l.foldl (fun x n' => x.release s n' i) x) ≤ queued x + l.length ∧
    (l.foldl (fun x n' => x.release s n' i) x).done = x.done ∧ (l.foldl (fun x n' => x.release s n' i) x).fuelOut = x.fuelOut
  | [], x => ⟨by simp, rfl, rfl⟩
  | n' :: l, x => by
    simp only [List.foldl_cons, List.length_cons]
    have ⟨a, b, c⟩ := release_queued s x n' i
    have ⟨a2, b2, c2⟩ := foldl_release_queued s i l (x.release s n' i)
    exact ⟨by omega, b2.trans b, c2.trans c⟩

theorem foldl_releaseTy_queued (s : TopoS) (i : Nat) (tbl : List (Ty × Nat)) : ∀ (l : List Ty) (x : Topo),
    queued (l.foldl (fun x t => match tbl.lookup t with | some num => x.release s num i | none => x) x) ≤ queued x + l.length ∧
    (l.foldl (fun x t => match tbl.lookup t with | some num => x.release s num i | none => x) x).done = x.done ∧
    (l.foldl (fun x t => match tbl.lookup t with | some num => x.release s num i | none => x) x).fuelOut = x.fuelOut
  | [], x => ⟨by simp, rfl, rfl⟩
  | t :: l, x => by
    simp only [List.foldl_cons, List.length_cons]
    cases hl : tbl.lookup t with
    | none =>
      simp only []
      have ⟨a, b, c⟩ := foldl_releaseTy_queued s i tbl l x
      exact ⟨by omega, b, c⟩
    | some num =>
      simp only []
      have ⟨a, b, c⟩ := release_queued s x num i
      have ⟨a2, b2, c2⟩ := foldl_releaseTy_queued s i tbl l (x.release s num i)
      exact ⟨by omega, b2.trans b, c2.trans c⟩

theorem releaseNode_queued (s : TopoS) (x : Topo) (i : Nat) :
    queued (x.releaseNode s i) ≤ queued x + (s.before.get i).length ∧ (x.releaseNode s i).done = x.done ∧
    (x.releaseNode s i).fuelOut = x.fuelOut := by
  have hfold : ∀ (l : List Nat) (y : Topo),
      queued (l.foldl (fun (x : Topo) n => { x with weakAfter := x.weakAfter.set n (setDel (x.weakAfter.get n) i) }) y) = queued y ∧
      (l.foldl (fun (x : Topo) n => { x with weakAfter := x.weakAfter.set n (setDel (x.weakAfter.get n) i) }) y).done = y.done ∧
      (l.foldl (fun (x : Topo) n => { x with weakAfter := x.weakAfter.set n (setDel (x.weakAfter.get n) i) }) y).fuelOut = y.fuelOut := by
    intro l
    induction l with
    | nil => intro y; exact ⟨rfl, rfl, rfl⟩
    | cons a l ih => intro y; simp only [List.foldl_cons]; exact ih _
  have h1 := hfold (s.weakBefore.get i) x
  have h2 := foldl_release_queued s i (s.before.get i)
    ((s.weakBefore.get i).foldl (fun (x : Topo) n => { x with weakAfter := x.weakAfter.set n (setDel (x.weakAfter.get n) i) }) x)
  show queued ((s.before.get i).foldl (fun x n => x.release s n i)
      ((s.weakBefore.get i).foldl (fun (x : Topo) n => { x with weakAfter := x.weakAfter.set n (setDel (x.weakAfter.get n) i) }) x)) ≤ _ ∧ _ ∧ _
  exact ⟨by have := h2.1; have := h1.1; omega, h2.2.1.trans h1.2.1, h2.2.2.trans h1.2.2⟩

theorem releaseProvider_queued (s : TopoS) (x : Topo) (i : Nat) :
    queued (x.releaseProvider s i) ≤ queued x + (s.outOf i).length + (s.recvOf i).length ∧ (x.releaseProvider s i).done = x.done ∧
    (x.releaseProvider s i).fuelOut = x.fuelOut := by
  have h1 := foldl_releaseTy_queued s i s.downTypes (s.outOf i) x
  have h2 := foldl_releaseTy_queued s i s.upTypes (s.recvOf i)
    ((s.outOf i).foldl (fun x t => match s.downTypes.lookup t with | some num => x.release s num i | none => x) x)
  have e : x.releaseProvider s i = (s.recvOf i).foldl (fun x t => match s.upTypes.lookup t with | some num => x.release s num i | none => x)
      ((s.outOf i).foldl (fun x t => match s.downTypes.lookup t with | some num => x.release s num i | none => x) x) := rfl
  rw [e]
  exact ⟨by have := h2.1; have := h1.1; omega, h2.2.1.trans h1.2.1, h2.2.2.trans h1.2.2⟩

/-! ### the pending part shrinks when a node is marked done -/

theorem sum_filter_done (s : TopoS) (i : Nat) (done : List Nat) : ∀ (l : List Nat), l.Nodup →
    ((l.filter fun j => !(i :: done).contains j).map (nodeW s)).sum + (if i ∈ l ∧ i ∉ done then nodeW s i else 0)
      = ((l.filter fun j => !done.contains j).map (nodeW s)).sum
  | [], _ => by simp
  | a :: l, hnd => by
    have hnd' := (List.nodup_cons.mp hnd)
    have ih := sum_filter_done s i done l hnd'.2
    by_cases hai : a = i
    · subst hai
      have hnotin : a ∉ l := hnd'.1
      by_cases had : a ∈ done
      · simp [had, hnotin] at ih ⊢; omega
      · simp [had, hnotin] at ih ⊢; omega
    · have hia : i ≠ a := fun h => hai h.symm
      by_cases had : a ∈ done
      · simp [had, hai, hia] at ih ⊢; omega
      · by_cases hil : i ∈ l
        · by_cases hid : i ∈ done
          · simp [had, hai, hia, hil, hid] at ih ⊢; omega
          · simp [had, hai, hia, hil, hid] at ih ⊢; omega
        · simp [had, hai, hia, hil] at ih ⊢; omega

theorem pendingW_cons (s : TopoS) (bound : Nat) (done : List Nat) (i : Nat) (hi : i ∉ done) (hb : i < bound) :
    pendingW s bound (i :: done) + nodeW s i = pendingW s bound done := by
  unfold pendingW
  have := sum_filter_done s i done (List.range bound) List.nodup_range
  simp only [List.mem_range, hb, hi, not_false_eq_true, and_self, if_true] at this
  exact this

theorem pendingW_cons_le (s : TopoS) (bound : Nat) (done : List Nat) (i : Nat) :
    pendingW s bound (i :: done) ≤ pendingW s bound done := by
  unfold pendingW
  have := sum_filter_done s i done (List.range bound) List.nodup_range
  omega

/-! ### one `processOne` does not increase the work -/

/-- nodes at or beyond `bound` cause no pushes -/
def Bounded (s : TopoS) (bound : Nat) : Prop := ∀ i, bound ≤ i → nodeW s i = 0

theorem step_le (s : TopoS) (bound : Nat) (x y : Topo) (i k : Nat) (hq : queued y ≤ queued x + k) (hd : y.done = i :: x.done)
    (hk : k ≤ nodeW s i)
    (hshare : pendingW s bound (i :: x.done) + nodeW s i ≤ pendingW s bound x.done ∨
        (nodeW s i = 0 ∧ pendingW s bound (i :: x.done) ≤ pendingW s bound x.done)) :
    work s bound y ≤ work s bound x := by
  unfold work
  rw [hd]
  rcases hshare with h | ⟨h0, h⟩ <;> omega

theorem processOne_work (s : TopoS) (bound : Nat) (hb : Bounded s bound) (x : Topo) (i : Nat) (rel : Bool) :
    work s bound (x.processOne s i rel) ≤ work s bound x ∧ (x.processOne s i rel).fuelOut = x.fuelOut := by
  unfold Topo.processOne
  split
  · exact ⟨Nat.le_refl _, rfl⟩
  · rename_i hd
    have hnd : i ∉ x.done := by simpa using hd
    have hshare : pendingW s bound (i :: x.done) + nodeW s i ≤ pendingW s bound x.done ∨
        (nodeW s i = 0 ∧ pendingW s bound (i :: x.done) ≤ pendingW s bound x.done) := by
      by_cases hib : i < bound
      · left; rw [pendingW_cons s bound x.done i hnd hib]; exact Nat.le_refl _
      · right; exact ⟨hb i (by omega), pendingW_cons_le s bound x.done i⟩
    have hw : nodeW s i = (s.before.get i).length + (s.outOf i).length + (s.recvOf i).length := rfl
    simp only []
    split
    · split
      · have h := releaseNode_queued s { x with done := i :: x.done } i
        exact ⟨step_le s bound x _ i (s.before.get i).length h.1 h.2.1 (by omega) hshare, h.2.2⟩
      · exact ⟨step_le s bound x _ i 0 (Nat.le_refl _) rfl (Nat.zero_le _) hshare, rfl⟩
    · split
      · have h := releaseNode_queued s { x with done := i :: x.done, out := x.out ++ [i] } i
        exact ⟨step_le s bound x _ i (s.before.get i).length h.1 h.2.1 (by omega) hshare, h.2.2⟩
      · have h := releaseNode_queued s { x with done := i :: x.done, out := x.out ++ [i] } i
        have h2 := releaseProvider_queued s ({ x with done := i :: x.done, out := x.out ++ [i] }.releaseNode s i) i
        refine ⟨step_le s bound x _ i ((s.before.get i).length + (s.outOf i).length + (s.recvOf i).length) ?_ (h2.2.1.trans h.2.1) (by omega) hshare,
          h2.2.2.trans h.2.2⟩
        have a := h.1; have a2 := h2.1
        have hq : queued { x with done := i :: x.done, out := x.out ++ [i] } = queued x := rfl
        omega

/-! ### the loop -/

theorem heapPop_length {h : RHeap} {i : Nat} {rest : RHeap} (hp : heapPop h = some (i, rest)) : rest.length + 1 = h.length := by
  unfold heapPop at hp
  cases hm : heapMin h with
  | none => simp [hm] at hp
  | some m =>
    simp only [hm, Option.some.injEq, Prod.mk.injEq] at hp
    rw [← hp.2, List.length_erase_of_mem (heapMin_mem hm)]
    have : 0 < h.length := List.length_pos_of_mem (heapMin_mem hm)
    omega

theorem loop_terminates (s : TopoS) (bound : Nat) (hb : Bounded s bound) : ∀ (fuel : Nat) (x : Topo),
    work s bound x < fuel → (Topo.loop s fuel x).fuelOut = x.fuelOut
  | 0, x, h => by omega
  | fuel + 1, x, h => by
    unfold Topo.loop
    cases hu : heapPop x.unblocked with
    | some pr =>
      obtain ⟨i, rest⟩ := pr
      simp only []
      have hl := heapPop_length hu
      have ⟨hw, hf⟩ := processOne_work s bound hb { x with unblocked := rest } i true
      rw [loop_terminates s bound hb fuel _ (by
        have : work s bound { x with unblocked := rest } + 1 = work s bound x := by
          unfold work queued; simp only []; omega
        omega)]
      exact hf
    | none =>
      simp only []
      cases hw' : heapPop x.weakBlocked with
      | some pr =>
        obtain ⟨i, rest⟩ := pr
        simp only []
        have hl := heapPop_length hw'
        have ⟨hw, hf⟩ := processOne_work s bound hb { x with weakBlocked := rest } i true
        rw [loop_terminates s bound hb fuel _ (by
          have : work s bound { x with weakBlocked := rest } + 1 = work s bound x := by
            unfold work queued; simp only []; omega
          omega)]
        exact hf
      | none =>
        simp only []
        cases hc : x.cannotReorder with
        | nil => rfl
        | cons i cr =>
          simp only []
          have ⟨hw, hf⟩ := processOne_work s bound hb { x with cannotReorder := cr } i ((x.after.get i).isEmpty)
          rw [loop_terminates s bound hb fuel _ (by
            have : work s bound { x with cannotReorder := cr } + 1 = work s bound x := by
              unfold work queued; simp only [hc, List.length_cons]; omega
            omega)]
          exact hf

end Nject

namespace Nject

/-! ### the fuel `reorderFuel` gives is enough -/

theorem le_foldl_max : ∀ (l : List Nat) (a : Nat), a ≤ l.foldl max a ∧ ∀ x ∈ l, x ≤ l.foldl max a
  | [], a => ⟨Nat.le_refl _, fun _ h => by cases h⟩
  | b :: l, a => by
    simp only [List.foldl_cons]
    have ⟨h1, h2⟩ := le_foldl_max l (max a b)
    refine ⟨Nat.le_trans (Nat.le_max_left a b) h1, fun x hx => ?_⟩
    rcases List.mem_cons.mp hx with rfl | hx
    · exact Nat.le_trans (Nat.le_max_right a x) h1
    · exact h2 x hx

theorem sum_le_of_all_le (M : Nat) : ∀ (l : List Nat), (∀ x ∈ l, x ≤ M) → l.sum ≤ l.length * M
  | [], _ => by simp
  | a :: l, h => by
    simp only [List.sum_cons, List.length_cons]
    have := sum_le_of_all_le M l (fun x hx => h x (by simp [hx]))
    have := h a (by simp)
    rw [Nat.add_mul]; omega

theorem pendingW_le (s : TopoS) (bound M : Nat) (done : List Nat) (hM : ∀ i, nodeW s i ≤ M) : pendingW s bound done ≤ bound * M := by
  unfold pendingW
  have h1 := sum_le_of_all_le M (((List.range bound).filter fun i => !done.contains i).map (nodeW s))
    (fun x hx => by obtain ⟨i, _, rfl⟩ := List.mem_map.mp hx; exact hM i)
  have h2 : (((List.range bound).filter fun i => !done.contains i).map (nodeW s)).length ≤ bound := by
    rw [List.length_map]
    exact Nat.le_trans (List.length_filter_le _ _) (by simp)
  exact Nat.le_trans h1 (Nat.mul_le_mul_right M h2)

theorem mem_le_sum : ∀ (l : List Nat) (x : Nat), x ∈ l → x ≤ l.sum
  | a :: l, x, h => by
    simp only [List.sum_cons]
    rcases List.mem_cons.mp h with rfl | h
    · omega
    · have := mem_le_sum l x h; omega

/-- the size of any `before` set is at most the number of strong pairs -/
theorem buildNodes_before_le (g : RGraph) (k : Nat) : ((buildNodes g).before.get k).length ≤ g.strong.length := by
  unfold buildNodes
  have key : ∀ (l : List (Nat × Nat)) (ns : Nodes) (c : Nat), (∀ k, (ns.before.get k).length ≤ c) →
      ∀ k, ((l.foldl (fun (ns : Nodes) (p : Nat × Nat) =>
        { ns with before := ns.before.set p.2 (setIns (ns.before.get p.2) p.1),
                  after := ns.after.set p.1 (setIns (ns.after.get p.1) p.2) }) ns).before.get k).length ≤ c + l.length := by
    intro l
    induction l with
    | nil => intro ns c h k; simpa using h k
    | cons q l ih =>
      intro ns c h k
      simp only [List.foldl_cons, List.length_cons]
      have := ih { ns with before := ns.before.set q.2 (setIns (ns.before.get q.2) q.1),
                           after := ns.after.set q.1 (setIns (ns.after.get q.1) q.2) } (c + 1) (by
        intro k'
        show ((ns.before.set q.2 (setIns (ns.before.get q.2) q.1)).get k').length ≤ c + 1
        rw [NMap.get_set]
        split
        · unfold setIns
          split
          · have := h q.2; omega
          · simp; have := h q.2; omega
        · have := h k'; omega) k
      omega
  have k2 := foldl_keeps (fun (ns : Nodes) (p : Nat × Nat) =>
    { ns with weakBefore := ns.weakBefore.set p.2 (setIns (ns.weakBefore.get p.2) p.1),
              weakAfter := ns.weakAfter.set p.1 (setIns (ns.weakAfter.get p.1) p.2) }) (fun _ _ => rfl) (fun _ _ => rfl) g.weak
  have k3 := foldl_keeps (fun (ns : Nodes) (p : Nat × Nat) =>
    if !(ns.weakBefore.get p.1).contains p.2 then ns else
    let wb := ns.weakBefore.set p.2 (setDel (ns.weakBefore.get p.2) p.1)
    let wb := wb.set p.1 (setDel (wb.get p.1) p.1)
    let wa := ns.weakAfter.set p.1 (setDel (ns.weakAfter.get p.1) p.2)
    let wa := wa.set p.2 (setDel (wa.get p.2) p.2)
    { ns with weakBefore := wb, weakAfter := wa })
    (fun ns a => by dsimp only; split <;> rfl) (fun ns a => by dsimp only; split <;> rfl) g.weak
  simp only []
  rw [(k3 _).1, (k2 _).1]
  have := key g.strong {} 0 (fun k => by simp [NMap.get, List.lookup]) k
  simpa using this

theorem getD_out_le (funcs : List CP) (i : Nat) : (noNoType (funcs.getD i default).out).length ≤ (funcs.map (·.out.length)).sum := by
  have h1 : (noNoType (funcs.getD i default).out).length ≤ (funcs.getD i default).out.length := List.length_filter_le _ _
  by_cases hi : i < funcs.length
  · have : (funcs.getD i default).out.length ∈ funcs.map (·.out.length) := by
      apply List.mem_map.mpr
      refine ⟨funcs[i], List.getElem_mem hi, ?_⟩
      simp [List.getD, List.getElem?_eq_getElem hi]
    have := mem_le_sum _ _ this
    omega
  · have : funcs.getD i default = default := by simp [List.getD, List.getElem?_eq_none (Nat.le_of_not_lt hi)]
    rw [this]
    have : noNoType (default : CP).out = [] := rfl
    rw [this]; simp

theorem getD_recv_le (funcs : List CP) (i : Nat) : (noNoType (funcs.getD i default).recv).length ≤ (funcs.map (·.recv.length)).sum := by
  have h1 : (noNoType (funcs.getD i default).recv).length ≤ (funcs.getD i default).recv.length := List.length_filter_le _ _
  by_cases hi : i < funcs.length
  · have : (funcs.getD i default).recv.length ∈ funcs.map (·.recv.length) := by
      apply List.mem_map.mpr
      refine ⟨funcs[i], List.getElem_mem hi, ?_⟩
      simp [List.getD, List.getElem?_eq_getElem hi]
    have := mem_le_sum _ _ this
    omega
  · have : funcs.getD i default = default := by simp [List.getD, List.getElem?_eq_none (Nat.le_of_not_lt hi)]
    rw [this]
    have : noNoType (default : CP).recv = [] := rfl
    rw [this]; simp

theorem topoStatic_bounded (funcs : List CP) (g : RGraph) : Bounded (topoStatic funcs g) (keyBound g funcs.length) := by
  intro i hi
  unfold keyBound at hi
  have ⟨hn, hk⟩ := le_foldl_max (g.strong.map (·.2)) funcs.length
  unfold nodeW topoStatic
  simp only []
  have hb : (buildNodes g).before.get i = [] := by
    cases hb : (buildNodes g).before.get i with
    | nil => rfl
    | cons j rest =>
      exfalso
      have hm := (buildNodes_spec g).1 i j (by rw [hb]; simp)
      have := hk i (List.mem_map.mpr ⟨(j, i), hm, rfl⟩)
      omega
  have hd : funcs.getD i default = default := by
    have : funcs.length ≤ i := by omega
    simp [List.getD, List.getElem?_eq_none this]
  rw [hb, hd]
  rfl

theorem topoInit_queued (funcs : List CP) (g : RGraph) (hasInit : Bool) (hcr : g.cannotReorder.length ≤ funcs.length) :
    queued (topoInit funcs g hasInit) ≤ (funcs.map (·.out.length)).sum + funcs.length ∧ (topoInit funcs g hasInit).fuelOut = false ∧
    (topoInit funcs g hasInit).done = [] := by
  unfold topoInit
  simp only []
  have base : queued ({ after := (buildNodes g).after, weakAfter := (buildNodes g).weakAfter, cannotReorder := g.cannotReorder } : Topo)
      = g.cannotReorder.length := by simp [queued]
  have hpush : ∀ (l : List Ty) (x : Topo),
      queued (l.foldl (fun (x : Topo) t => match g.downTypes.lookup t with | some num => x.pushU (topoStatic funcs g) num | none => x) x)
        ≤ queued x + l.length ∧
      (l.foldl (fun (x : Topo) t => match g.downTypes.lookup t with | some num => x.pushU (topoStatic funcs g) num | none => x) x).fuelOut = x.fuelOut ∧
      (l.foldl (fun (x : Topo) t => match g.downTypes.lookup t with | some num => x.pushU (topoStatic funcs g) num | none => x) x).done = x.done := by
    intro l
    induction l with
    | nil => intro x; exact ⟨by simp, rfl, rfl⟩
    | cons t l ih =>
      intro x
      simp only [List.foldl_cons, List.length_cons]
      cases g.downTypes.lookup t with
      | none => simp only []; have := ih x; exact ⟨by omega, this.2.1, this.2.2⟩
      | some num =>
        simp only []
        have := ih (x.pushU (topoStatic funcs g) num)
        have hq : queued (x.pushU (topoStatic funcs g) num) = queued x + 1 := by simp [Topo.pushU, queued]; omega
        exact ⟨by omega, this.2.1, this.2.2⟩
  cases hasInit with
  | false => simp only [Bool.false_eq_true, if_false]; exact ⟨by rw [base]; omega, by first | rfl | trivial, by first | rfl | trivial⟩
  | true =>
    simp only [if_true]
    cases hf : funcs.find? (·.cls == .initFunc) with
    | none => simp only []; exact ⟨by rw [base]; omega, by first | rfl | trivial, by first | rfl | trivial⟩
    | some f =>
      simp only []
      have ⟨a, b, c⟩ := hpush (noNoType f.out) { after := (buildNodes g).after, weakAfter := (buildNodes g).weakAfter, cannotReorder := g.cannotReorder }
      refine ⟨Nat.le_trans a ?_, b, c⟩
      rw [base]
      have h1 : (noNoType f.out).length ≤ f.out.length := List.length_filter_le _ _
      have h2 : f.out.length ≤ (funcs.map (·.out.length)).sum :=
        mem_le_sum _ _ (List.mem_map.mpr ⟨f, List.mem_of_find?_eq_some hf, rfl⟩)
      omega

/-- **`topo.run` ends within the fuel it is given**: the transcription never runs out of fuel -/
theorem reorderIdx_terminates {ti : TyInfo} {funcs : List CP} {hasInit : Bool} {r : ReorderOut}
    (h : reorderIdx ti funcs hasInit = some r) : r.fuelOut = false := by
  unfold reorderIdx at h
  simp only [] at h
  split at h
  · cases h
  · injection h with h
    subst h
    simp only []
    generalize hg : buildGraph ti (clearReorder funcs) hasInit = g
    have hs : SOK (topoStatic (clearReorder funcs) g) g.cannotReorder := hg ▸ reorderStatic_ok ti (clearReorder funcs) hasInit
    have hcr : g.cannotReorder.length ≤ (clearReorder funcs).length := by
      rw [hs.nrEq]
      exact Nat.le_trans (List.length_filter_le _ _) (by simp [topoStatic])
    have ⟨hq, hf, hd⟩ := topoInit_queued (clearReorder funcs) g hasInit hcr
    have hb := topoStatic_bounded (clearReorder funcs) g
    have hM : ∀ i, nodeW (topoStatic (clearReorder funcs) g) i ≤
        g.strong.length + ((clearReorder funcs).map (·.out.length)).sum + ((clearReorder funcs).map (·.recv.length)).sum := by
      intro i
      unfold nodeW topoStatic
      simp only []
      have := buildNodes_before_le g i
      have := getD_out_le (clearReorder funcs) i
      have := getD_recv_le (clearReorder funcs) i
      omega
    have hp := pendingW_le (topoStatic (clearReorder funcs) g) (keyBound g (clearReorder funcs).length) _ [] hM
    rw [loop_terminates _ (keyBound g (clearReorder funcs).length) hb]
    · exact hf
    · unfold work reorderFuel
      rw [hd]
      simp only []
      have : keyBound g (clearReorder funcs).length * (g.strong.length + ((clearReorder funcs).map (·.out.length)).sum + ((clearReorder funcs).map (·.recv.length)).sum)
          ≤ keyBound g (clearReorder funcs).length * (g.strong.length + ((clearReorder funcs).map (·.out.length)).sum + ((clearReorder funcs).map (·.recv.length)).sum + 1) :=
        Nat.mul_le_mul_left _ (Nat.le_succ _)
      omega

end Nject
