import NjectProofs.Refine
/-
  The STATIC chain and the bound chain as a state machine: `Compiled.execInit/execInvoke`
  refine `Compiled.specInit/specInvoke` for every history of init/invoke calls.
-/
namespace Nject

theorem zeroSlots_obs (f : Ty → Option Nat) (hinj : Inj f) :
    ∀ (zs : List Ty) (v : VC) (t : Ty) (i : Nat), f t = some i → i < v.length →
      obs (zeroSlots f v zs) i t = if t ∈ zs then zeroV t else obs v i t
  | [], v, t, i, _, _ => by simp [zeroSlots]
  | t0 :: zs, v, t, i, hf, hlt => by
    unfold zeroSlots
    cases hf0 : f t0 with
    | none =>
      have hne : t ≠ t0 := by intro h; subst h; rw [hf0] at hf; cases hf
      rw [zeroSlots_obs f hinj zs v t i hf hlt]
      simp [hne]
    | some i0 =>
      have hlen : i < (v.set i0 (some (zeroV t0))).length := by simpa using hlt
      rw [zeroSlots_obs f hinj zs _ t i hf hlen]
      by_cases hmem : t ∈ zs
      · simp [hmem]
      · by_cases heq : t = t0
        · subst heq
          have : i0 = i := by rw [hf0] at hf; exact Option.some.inj hf
          subst this
          simp [hmem, obs_set_same v i0 _ t hlt]
        · have hij : i0 ≠ i := by
            intro h; subst h; exact heq (hinj t t0 i0 hf hf0)
          simp [hmem, heq, obs_set_other v i0 i _ t hij]

theorem zero_rd : ∀ (ls : List Ty) (e : Env) (t : Ty),
    (e.zero ls).rd t = if t ∈ ls then zeroV t else e.rd t
  | [], e, t => by simp [Env.zero]
  | t0 :: ls, e, t => by
    simp only [Env.zero]
    rw [zero_rd ls (e.set1 t0 (zeroV t0)) t]
    by_cases hmem : t ∈ ls
    · simp [hmem]
    · by_cases heq : t = t0
      · subst heq; simp [hmem]
      · simp [hmem, heq, rd_set1_other e t0 t _ heq]

theorem zeroSlots_rel (f : Ty → Option Nat) (hinj : Inj f) (n : Nat) (hb : Below f n)
    (zs ls : List Ty) (v : VC) (e : Env) (hl : v.length = n) (h : Rel f v e)
    (hsame : ∀ t, (f t).isSome → (t ∈ zs ↔ t ∈ ls)) :
    Rel f (zeroSlots f v zs) (e.zero ls) := by
  intro t i hi
  have hlt : i < v.length := by rw [hl]; exact hb t i hi
  rw [zeroSlots_obs f hinj zs v t i hi hlt, zero_rd ls e t]
  have := hsame t (by simp [hi])
  by_cases hz : t ∈ zs
  · simp [hz, this.mp hz]
  · have hl' : t ∉ ls := fun h' => hz (this.mpr h')
    simp [hz, hl', h t i hi]

/-- literal values written after a failure keep the slot/environment correspondence -/
theorem applyLits_rel (m : Maps) (len : Nat) (hs : SlotsOK m len) :
    ∀ (nodes : List SNode) (v : VC) (e : Env), v.length = len → Rel m.d v e → Rel m.u v Env.empty →
      Rel m.d (applyLitsV m nodes v) (applyLitsE nodes e) ∧ Rel m.u (applyLitsV m nodes v) Env.empty ∧
      (applyLitsV m nodes v).length = len
  | [], v, e, hl, hd, hu => ⟨hd, hu, hl⟩
  | n :: rest, v, e, hl, hd, hu => by
    simp only [applyLitsV, applyLitsE]
    cases n.lit with
    | none => exact applyLits_rel m len hs rest v e hl hd hu
    | some x =>
      exact applyLits_rel m len hs rest _ _ (by rw [wrOuts_length]; exact hl)
        (wrOuts_rel m.d hs.dinj len hs.dlt n.outs _ v e hl hd)
        (wrOuts_rel_other m.d m.u hs.disj n.outs _ v Env.empty hu)

theorem exec_refines_spec_static (b : Beh) (m : Maps) (len : Nat) (hs : SlotsOK m len) :
    ∀ (nodes : List SNode), wfStatic m.d nodes = true →
      ∀ (v : VC) (down : Env) (st : St), v.length = len → Rel m.d v down → Rel m.u v Env.empty →
        (execStatic b m nodes v st).2 = (specStatic b nodes down st).2 ∧
        Rel m.d (execStatic b m nodes v st).1 (specStatic b nodes down st).1 ∧
        Rel m.u (execStatic b m nodes v st).1 Env.empty ∧
        (execStatic b m nodes v st).1.length = len
  | [], _, v, down, st, hl, hd, hu => by
    simp only [execStatic, specStatic]; exact ⟨trivial, hd, hu, hl⟩
  | n :: rest, hwf, v, down, st, hl, hd, hu => by
    simp only [wfStatic, Bool.and_eq_true] at hwf
    obtain ⟨⟨hins, hz⟩, hrest⟩ := hwf
    cases hlit : n.lit with
    | some x =>
      simp only [execStatic, specStatic, hlit]
      exact exec_refines_spec_static b m len hs rest hrest _ _ _
        (by rw [wrOuts_length]; exact hl)
        (wrOuts_rel m.d hs.dinj len hs.dlt n.outs _ v down hl hd)
        (wrOuts_rel_other m.d m.u hs.disj n.outs _ v Env.empty hu)
    | none =>
      simp only [hlit, Option.isSome_none, Bool.false_or, List.all_eq_true] at hins
      have hrd := rdIns_eq m.d v down hd n.ins hins
      simp only [execStatic, specStatic, hlit, hrd]
      split
      · rename_i hfail
        simp only [Bool.and_eq_true] at hfail
        have hf : n.fallible = true := hfail.1
        simp only [hf, Bool.not_true, Bool.false_or, Bool.and_eq_true, List.all_eq_true, Bool.or_eq_true,
          Bool.not_eq_true', List.contains_eq_mem, decide_eq_true_eq] at hz
        have hzl : (zeroSlots m.d v n.zero).length = len := by rw [zeroSlots_length]; exact hl
        have hzd : Rel m.d (zeroSlots m.d v n.zero) (down.zero (laterOuts rest)) := by
          apply zeroSlots_rel m.d hs.dinj len hs.dlt n.zero (laterOuts rest) _ _ hl hd
          intro t hsl
          constructor
          · intro hm
            cases hz.2 t hm with
            | inl h => rw [h] at hsl; cases hsl
            | inr h => exact h
          · intro hm
            cases hz.1 t hm with
            | inl h => rw [h] at hsl; cases hsl
            | inr h => exact h
        have hzu : Rel m.u (zeroSlots m.d v n.zero) Env.empty := zeroSlots_rel_other m.d m.u hs.disj n.zero _ Env.empty hu
        refine ⟨rfl, ?_⟩
        exact applyLits_rel m len hs rest _ _ (by rw [wrOuts_length]; exact hzl)
          (wrOuts_rel m.d hs.dinj len hs.dlt n.outs _ _ _ hzl hzd)
          (wrOuts_rel_other m.d m.u hs.disj n.outs _ _ Env.empty hzu)
      · exact exec_refines_spec_static b m len hs rest hrest _ _ _
          (by rw [wrOuts_length]; exact hl)
          (wrOuts_rel m.d hs.dinj len hs.dlt n.outs _ v down hl hd)
          (wrOuts_rel_other m.d m.u hs.disj n.outs _ v Env.empty hu)

end Nject
