import NjectProofs.IncludeMono
import NjectProofs.IncludeTerm
/-
  The elimination rounds (`proposalLoop`) on chains without Clusters -- the chains C16 is claimed for: a round never
  lowers the number of excluded providers (a trial sets one flag and either keeps it or puts it back), a round that
  is followed by another one has raised it, and it cannot exceed the length of the chain: `n + 1` rounds are enough.
-/
namespace Nject

/-- same length, same classification, exclusion flags only gained -/
def EM (ch ch' : Chain) : Prop :=
  ch'.length = ch.length ∧ ∀ j, (ch'.get j).c = (ch.get j).c ∧ ((ch.get j).excluded = true → (ch'.get j).excluded = true)

theorem EM_refl (ch : Chain) : EM ch ch := ⟨rfl, fun _ => ⟨rfl, id⟩⟩

theorem EM_trans {a b c : Chain} (h1 : EM a b) (h2 : EM b c) : EM a c :=
  ⟨h2.1.trans h1.1, fun j => ⟨(h2.2 j).1.trans (h1.2 j).1, fun h => (h2.2 j).2 ((h1.2 j).2 h)⟩⟩

theorem EM_of_FR {ch ch' : Chain} (h : FR ch ch') : EM ch ch' := by
  refine ⟨h.1, fun j => ?_⟩
  have := h.2 j
  unfold flagsOnly at this
  rw [← this]
  exact ⟨rfl, id⟩

theorem countP_mono {α} (p : α → Bool) : ∀ (l l' : List α), l'.length = l.length →
    (∀ k (h : k < l.length) (h' : k < l'.length), p l[k] = true → p l'[k] = true) → l.countP p ≤ l'.countP p
  | [], [], _, _ => by simp
  | [], _ :: _, h, _ => by simp at h
  | _ :: _, [], h, _ => by simp at h
  | a :: l, b :: l', hl, h => by
    have ih := countP_mono p l l' (by simpa using hl) (fun k hk hk' hp => by
      have := h (k + 1) (by simpa using hk) (by simpa using hk') (by simpa using hp)
      simpa using this)
    have h0 := h 0 (by simp) (by simp)
    simp only [List.getElem_cons_zero] at h0
    simp only [List.countP_cons]
    cases hpa : p a with
    | false => simp; omega
    | true => simp [h0 hpa]; omega

theorem countExcluded_eq (ch : Chain) : countExcluded ch = ch.countP (·.excluded) := by
  unfold countExcluded
  rw [List.countP_eq_length_filter]

theorem countExcluded_mono {ch ch' : Chain} (h : EM ch ch') : countExcluded ch ≤ countExcluded ch' := by
  rw [countExcluded_eq, countExcluded_eq]
  apply countP_mono _ ch ch' h.1
  intro k hk hk' hp
  have := (h.2 k).2
  rw [get_eq_getElem ch k hk, get_eq_getElem ch' k hk'] at this
  exact this hp

theorem countExcluded_le (ch : Chain) : countExcluded ch ≤ ch.length := by
  unfold countExcluded
  exact List.length_filter_le _ _

/-- a single trial -/
theorem tryWithout_single_EM (ch : Chain) (i : Nat) (hi : (ch.get i).excluded = false) : EM ch (tryWithout ch [i]) := by
  unfold tryWithout
  simp only []
  split
  · exact EM_refl ch
  · have hup : ∀ (b : Bool) (c0 : Chain) (j : Nat), ((c0.upd i fun f => { f with excluded := b }).get j).c = (c0.get j).c := by
      intro b c0 j
      rw [get_upd]; split
      · rename_i hj; rw [hj.1]
      · rfl
    have h1 : EM ch (ch.upd i fun f => { f with excluded := true }) := by
      refine ⟨upd_length ch i _, fun j => ⟨hup true ch j, fun hx => ?_⟩⟩
      rw [get_upd]; split
      · rfl
      · exact hx
    split
    · rename_i ch2 hv
      exact EM_trans h1 (EM_of_FR (validate_FR false _ _ hv))
    · -- the flag is put back
      refine ⟨by simp [upd_length], fun j => ⟨(hup false _ j).trans (hup true ch j), fun hx => ?_⟩⟩
      rw [get_upd]; split
      · rename_i hj
        exact absurd (hj.1 ▸ hx) (by simp [hi])
      · rw [get_upd]; split
        · rename_i hj
          exact absurd (hj.1 ▸ hx) (by simp [hi])
        · exact hx

/-- no provider of the chain is in a Cluster -/
def NoCl (ch : Chain) : Prop := ∀ j, (ch.get j).c.cluster = 0

theorem NoCl_of_EM {ch ch' : Chain} (h : EM ch ch') (hn : NoCl ch) : NoCl ch' := fun j => by rw [(h.2 j).1]; exact hn j

theorem proposalRound_EM (ch : Chain) (hn : NoCl ch) : EM ch (proposalRound ch) := by
  unfold proposalRound
  have key : ∀ (l : List Nat) (c0 : Chain), EM ch c0 →
      EM ch (l.foldl (fun ch i =>
        let fm := ch.get i
        if fm.excluded then ch
        else if fm.c.cluster != 0 then
          match fm.clusterMembers with
          | some ms => tryWithout ch ms
          | none => ch
        else tryWithout ch [i]) c0) := by
    intro l
    induction l with
    | nil => intro c0 h; exact h
    | cons i l ih =>
      intro c0 h
      simp only [List.foldl_cons]
      apply ih
      by_cases hex : (c0.get i).excluded = true
      · simp only [hex, if_true]; exact h
      · have hex' : (c0.get i).excluded = false := by simpa using hex
        have hcl : (c0.get i).c.cluster = 0 := NoCl_of_EM h hn i
        simp only [hex', Bool.false_eq_true, if_false, hcl, bne_self_eq_false]
        exact EM_trans h (tryWithout_single_EM c0 i hex')
  exact key _ ch (EM_refl ch)

/-- **with `length - excluded + 1` rounds of fuel the result does not depend on the fuel** (chains without Clusters) -/
theorem proposalLoop_fuel : ∀ (f1 f2 : Nat) (ch : Chain), NoCl ch →
    ch.length - countExcluded ch + 1 ≤ f1 → ch.length - countExcluded ch + 1 ≤ f2 →
      proposalLoop f1 ch = proposalLoop f2 ch
  | 0, _, _, _, h1, _ => by omega
  | _ + 1, 0, _, _, _, h2 => by omega
  | f1 + 1, f2 + 1, ch, hn, h1, h2 => by
    simp only [proposalLoop]
    have em := proposalRound_EM ch hn
    have hmono := countExcluded_mono em
    have hle := countExcluded_le (proposalRound ch)
    split
    · rfl
    · rename_i hne
      have hne' : countExcluded (proposalRound ch) ≠ countExcluded ch := by simpa using hne
      have hlen := em.1
      exact proposalLoop_fuel f1 f2 _ (NoCl_of_EM em hn) (by omega) (by omega)

end Nject
