import Nject.Edit
/-
  Lemmas about the list surgery of named edits.
-/
namespace Nject

theorem cutAt_eq (l : List ENode) (k : Nat) (p : ENode → Bool) :
    l = (cutAt l k p).1 ++ (cutAt l k p).2.1 ++ (cutAt l k p).2.2 := by
  simp only [cutAt, List.append_assoc, List.takeWhile_append_dropWhile]

theorem cutAt_block_all (l : List ENode) (k : Nat) (p : ENode → Bool) :
    ∀ x ∈ (cutAt l k p).2.1, p x = true := by
  intro x hx
  simp only [cutAt] at hx
  have := @List.all_takeWhile _ p (List.dropWhile (fun x => x.idx != k) l)
  exact List.all_eq_true.mp this x hx

theorem insertAtPos_perm (l b : List ENode) (p : Nat) : (insertAtPos l b p).Perm (b ++ l) := by
  unfold insertAtPos
  have h1 : (List.take p l ++ b ++ List.drop p l).Perm (b ++ List.take p l ++ List.drop p l) :=
    List.Perm.append_right _ List.perm_append_comm
  refine h1.trans ?_
  rw [List.append_assoc, List.take_append_drop]

theorem insertAtPos_filter (l b : List ENode) (p : Nat) (q : ENode → Bool) (hb : b.filter q = []) :
    (insertAtPos l b p).filter q = l.filter q := by
  unfold insertAtPos
  rw [List.filter_append, List.filter_append, hb, List.append_nil, ← List.filter_append, List.take_append_drop]

theorem filter_nil_of_all {l : List ENode} {q : ENode → Bool} (h : ∀ x ∈ l, q x = false) : l.filter q = [] := by
  rw [List.filter_eq_nil_iff]
  intro a ha; rw [h a ha]; exact Bool.false_ne_true

/-- the inserted block sits contiguously in the result, at the requested position -/
theorem insertAtPos_shape (l b : List ENode) (p : Nat) :
    insertAtPos l b p = l.take p ++ b ++ l.drop p := rfl

/-! ### a moved block only contains providers that carry the directive -/

theorem moveBefore_block_tagged (cur : List ENode) (n : ENode) (ent : NameEntry) (hn : n.bef ≠ 0) :
    ∀ x ∈ (moveBefore cur n ent).2.1, x.plain = false := by
  intro x hx
  have := cutAt_block_all cur n.idx (·.bef == n.bef) x hx
  have hx' : x.bef = n.bef := by simpa using this
  simp [ENode.plain, hx', hn]

theorem moveAfter_block_tagged (cur : List ENode) (n : ENode) (ent : NameEntry) (hn : n.aft ≠ 0) :
    ∀ x ∈ (moveAfter cur n ent).2.1, x.plain = false := by
  intro x hx
  have := cutAt_block_all cur n.idx (·.aft == n.aft) x hx
  have hx' : x.aft = n.aft := by simpa using this
  simp [ENode.plain, hx', hn]

theorem moveReplace_block_tagged (cur : List ENode) (n : ENode) (ent : NameEntry) (hn : n.rep ≠ 0) :
    ∀ x ∈ (moveReplace cur n ent).2.2.1, x.plain = false := by
  intro x hx
  have := cutAt_block_all _ n.idx (·.rep == n.rep) x hx
  have hx' : x.rep = n.rep := by simpa using this
  simp [ENode.plain, hx', hn]

theorem moveReplace_removed_named (cur : List ENode) (n : ENode) (ent : NameEntry) :
    ∀ x ∈ (moveReplace cur n ent).2.1, x.origin = n.rep := by
  intro x hx
  have := cutAt_block_all cur ent.first (·.origin == n.rep) x hx
  simpa using this

/-! ### permutations: nothing is invented or duplicated -/

theorem moveBefore_perm (cur : List ENode) (n : ENode) (ent : NameEntry) :
    (moveBefore cur n ent).1.Perm cur := by
  have hc := cutAt_eq cur n.idx (·.bef == n.bef)
  simp only [moveBefore]
  refine (insertAtPos_perm _ _ _).trans ?_
  conv => rhs; rw [hc]
  rw [List.append_assoc]
  exact (List.perm_append_comm_assoc _ _ _)

theorem moveAfter_perm (cur : List ENode) (n : ENode) (ent : NameEntry) :
    (moveAfter cur n ent).1.Perm cur := by
  have hc := cutAt_eq cur n.idx (·.aft == n.aft)
  simp only [moveAfter]
  refine (insertAtPos_perm _ _ _).trans ?_
  conv => rhs; rw [hc]
  rw [List.append_assoc]
  exact (List.perm_append_comm_assoc _ _ _)

theorem insert_cut_perm (pre blk post : List ENode) (p : Nat) :
    (insertAtPos (pre ++ post) blk p).Perm (pre ++ blk ++ post) := by
  refine (insertAtPos_perm _ _ _).trans ?_
  rw [List.append_assoc]
  exact (List.perm_append_comm_assoc _ _ _)

/-- replace: the old list is the new list plus the removed target block -/
theorem moveReplace_perm (cur : List ENode) (n : ENode) (ent : NameEntry) :
    cur.Perm ((moveReplace cur n ent).2.1 ++ (moveReplace cur n ent).1) := by
  have hct := cutAt_eq cur ent.first (·.origin == n.rep)
  simp only [moveReplace]
  generalize cutAt cur ent.first (·.origin == n.rep) = ct at hct ⊢
  obtain ⟨tpre, tblk, tpost⟩ := ct
  simp only at hct ⊢
  have hcm := cutAt_eq (tpre ++ tpost) n.idx (·.rep == n.rep)
  generalize cutAt (tpre ++ tpost) n.idx (·.rep == n.rep) = cm at hcm ⊢
  obtain ⟨mpre, mblk, mpost⟩ := cm
  simp only at hcm ⊢
  have h2 : ∀ p, (insertAtPos (mpre ++ mpost) mblk p).Perm (tpre ++ tpost) := by
    intro p; rw [hcm]; exact insert_cut_perm mpre mblk mpost p
  rw [hct, List.append_assoc]
  refine (List.perm_append_comm_assoc _ _ _).trans ?_
  exact List.Perm.append_left _ (h2 _).symm

/-! ### the providers without a directive keep their order -/

theorem moveBefore_plain (cur : List ENode) (n : ENode) (ent : NameEntry) (hn : n.bef ≠ 0) :
    (moveBefore cur n ent).1.filter (·.plain) = cur.filter (·.plain) := by
  have hc := cutAt_eq cur n.idx (·.bef == n.bef)
  have hb : (cutAt cur n.idx (·.bef == n.bef)).2.1.filter (·.plain) = [] :=
    filter_nil_of_all (moveBefore_block_tagged cur n ent hn)
  simp only [moveBefore]
  rw [insertAtPos_filter _ _ _ _ hb]
  conv => rhs; rw [hc]
  simp only [List.filter_append, hb, List.append_nil]

theorem moveAfter_plain (cur : List ENode) (n : ENode) (ent : NameEntry) (hn : n.aft ≠ 0) :
    (moveAfter cur n ent).1.filter (·.plain) = cur.filter (·.plain) := by
  have hc := cutAt_eq cur n.idx (·.aft == n.aft)
  have hb : (cutAt cur n.idx (·.aft == n.aft)).2.1.filter (·.plain) = [] :=
    filter_nil_of_all (moveAfter_block_tagged cur n ent hn)
  simp only [moveAfter]
  rw [insertAtPos_filter _ _ _ _ hb]
  conv => rhs; rw [hc]
  simp only [List.filter_append, hb, List.append_nil]

/-- replace: the plain providers of the new list are those of the old list without the ones named
    like the replaced target -/
theorem moveReplace_plain (cur : List ENode) (n : ENode) (ent : NameEntry) (hn : n.rep ≠ 0) :
    ((moveReplace cur n ent).1.filter (·.plain)).Sublist (cur.filter (·.plain)) := by
  have hct := cutAt_eq cur ent.first (·.origin == n.rep)
  have hb := filter_nil_of_all (moveReplace_block_tagged cur n ent hn)
  simp only [moveReplace] at hb ⊢
  generalize cutAt cur ent.first (·.origin == n.rep) = ct at hct hb ⊢
  obtain ⟨tpre, tblk, tpost⟩ := ct
  simp only at hct hb ⊢
  have hcm := cutAt_eq (tpre ++ tpost) n.idx (·.rep == n.rep)
  generalize cutAt (tpre ++ tpost) n.idx (·.rep == n.rep) = cm at hcm hb ⊢
  obtain ⟨mpre, mblk, mpost⟩ := cm
  simp only at hcm hb ⊢
  rw [insertAtPos_filter _ _ _ _ hb]
  have h1 : (mpre ++ mpost).filter (·.plain) = (tpre ++ tpost).filter (·.plain) := by
    rw [hcm]; simp only [List.filter_append, hb, List.append_nil]
  rw [h1, hct]
  apply List.Sublist.filter
  rw [List.append_assoc]
  exact List.Sublist.append (List.Sublist.refl _) (List.sublist_append_right _ _)

end Nject
