import NjectProofs.IncludeSupply2
import NjectProofs.IncludeReturned
/-
  Completeness of the records of the upward pass: for every provider that is not marked "cannot be included" and every
  type it expects from below, `providesReturns` has recorded either an error (`errRecv`) or a list of sources
  (`usesRecv`).  The mirror image of IncludeSupply2.lean; used for C02.
-/
namespace Nject

/-- the two records the argument is about -/
def RE (f : IP) : List (Ty × List Nat) × List Ty := (f.usesRecv, f.errRecv)

/-- the requested type `t` of provider `j` has been dealt with -/
def CovR (ch : Chain) (j : Nat) (t : Ty) : Prop := t ∈ (RE (ch.get j)).2 ∨ ∃ e ∈ (RE (ch.get j)).1, e.1 = t

theorem CovR_congr {ch ch' : Chain} {j : Nat} {t : Ty} (h : RE (ch'.get j) = RE (ch.get j)) (hc : CovR ch j t) : CovR ch' j t := by
  unfold CovR; rw [h]; exact hc

/-- the records of every provider other than `k` are unchanged -/
def PresExR (k : Nat) (ch ch' : Chain) : Prop := ∀ j, j ≠ k → RE (ch'.get j) = RE (ch.get j)

theorem PresExR_refl (k : Nat) (ch : Chain) : PresExR k ch ch := fun _ _ => rfl
theorem PresExR_trans {k : Nat} {a b c : Chain} (h1 : PresExR k a b) (h2 : PresExR k b c) : PresExR k a c :=
  fun j hj => (h2 j hj).trans (h1 j hj)
theorem PresExR_of_Pres {k : Nat} {a b : Chain} (h : Pres RE a b) : PresExR k a b := fun j _ => h j
theorem PresExR_upd (k : Nat) (ch : Chain) (g : IP → IP) : PresExR k ch (ch.upd k g) := by
  intro j hj
  rw [get_upd]
  have : ¬ (j = k ∧ k < ch.length) := fun hh => hj hh.1
  rw [if_neg this]
theorem PresExR_ite {k : Nat} {ch x y : Chain} (c : Prop) [Decidable c] (hx : PresExR k ch x) (hy : PresExR k ch y) :
    PresExR k ch (if c then x else y) := by
  split
  · exact hx
  · exact hy
theorem foldl_PresExR {β} (k : Nat) (f : Chain → β → Chain) (hf : ∀ c a, PresExR k c (f c a)) :
    ∀ (l : List β) (c : Chain), PresExR k c (l.foldl f c)
  | [], c => PresExR_refl k c
  | a :: l, c => by simp only [List.foldl_cons]; exact PresExR_trans (hf c a) (foldl_PresExR k f hf l (f c a))

/-! ### asking for received values touches the asker's records only -/

theorem depStep_recv_PresExR (k : Nat) (t : Ty) (ch : Chain) (d : Nat) : PresExR k ch (depStep .recv k t ch d) := by
  unfold depStep
  simp only []
  apply PresExR_ite
  · refine PresExR_trans ?_ (PresExR_upd k _ _)
    refine PresExR_trans ?_ (PresExR_of_Pres (Pres_upd RE _ d _ (fun f => rfl)))
    exact PresExR_upd k _ _
  · refine PresExR_trans ?_ (PresExR_of_Pres (Pres_upd RE _ d _ (fun f => rfl)))
    exact PresExR_upd k _ _

theorem typeStep_recv_PresExR (ti : TyInfo) (avail : IMap) (k : Nat) (ch : Chain) (t : Ty) :
    PresExR k ch (typeStep ti avail .recv k ch t) := by
  unfold typeStep
  split
  · exact PresExR_upd k ch _
  · exact PresExR_trans (PresExR_upd k ch _) (foldl_PresExR k _ (fun c d => depStep_recv_PresExR k t c d) _ _)

theorem requireParams_recv_PresExR (ti : TyInfo) (ch : Chain) (k : Nat) (avail : IMap) :
    PresExR k ch (requireParams ti ch k avail .recv) := by
  rw [requireParams_eq]
  exact PresExR_trans (PresExR_upd k ch _) (foldl_PresExR k _ (fun c t => typeStep_recv_PresExR ti avail k c t) _ _)

/-! ### the asker's own records -/

/-- the asker's records after one dependency -/
theorem depStep_recv_at (j : Nat) (t : Ty) (ch : Chain) (d : Nat) (hj : j < ch.length) :
    RE ((depStep .recv j t ch d).get j) = (appendAt (ch.get j).usesRecv t d, (ch.get j).errRecv) := by
  unfold depStep
  simp only []
  have e1 : RE ((ch.upd j fun f => { f with usesRecv := appendAt f.usesRecv t d, uses := f.uses ++ [d] }).get j)
      = (appendAt (ch.get j).usesRecv t d, (ch.get j).errRecv) := by
    rw [get_upd_same ch j _ hj]; rfl
  have e2 := Pres_upd RE (ch.upd j fun f => { f with usesRecv := appendAt f.usesRecv t d, uses := f.uses ++ [d] }) d
    (fun g => { g with usedBy := g.usedBy ++ [j], usedByRet := appendAt g.usedByRet t j }) (fun f => rfl) j
  have e3 := Pres_upd RE ((ch.upd j fun f => { f with usesRecv := appendAt f.usesRecv t d, uses := f.uses ++ [d] }).upd d
    (fun g => { g with usedBy := g.usedBy ++ [j], usedByRet := appendAt g.usedByRet t j })) j
    (fun f => { f with usedBy := f.usedBy ++ [d] }) (fun f => rfl) j
  exact ite_at _ (e3.trans (e2.trans e1)) (e2.trans e1)

theorem deps_covR (j : Nat) (t : Ty) : ∀ (deps : List Nat) (c : Chain), j < c.length →
    (∀ t0, CovR c j t0 → CovR (deps.foldl (depStep .recv j t) c) j t0) ∧ (deps ≠ [] → CovR (deps.foldl (depStep .recv j t) c) j t)
  | [], c, _ => ⟨fun _ h => h, fun h => absurd rfl h⟩
  | d :: deps, c, hj => by
    simp only [List.foldl_cons]
    have hat := depStep_recv_at j t c d hj
    have hl : j < (depStep .recv j t c d).length := by rw [depStep_length]; exact hj
    have ⟨ih1, _⟩ := deps_covR j t deps (depStep .recv j t c d) hl
    have step1 : ∀ t0, CovR c j t0 → CovR (depStep .recv j t c d) j t0 := by
      intro t0 h0
      unfold CovR at h0 ⊢
      rw [hat]
      rcases h0 with h0 | h0
      · exact Or.inl h0
      · exact Or.inr (appendAt_key_mono _ t d h0)
    have step2 : CovR (depStep .recv j t c d) j t := by
      unfold CovR
      rw [hat]
      exact Or.inr (appendAt_key_self _ t d)
    exact ⟨fun t0 h0 => ih1 t0 (step1 t0 h0), fun _ => ih1 t step2⟩

theorem typeStep_covR {ti : TyInfo} {O : Nat → List Ty} {avail : IMap} (j : Nat) (ch : Chain) (t : Ty) (hj : j < ch.length)
    (hav : AvU O (j + 1) avail) :
    (∀ t0, CovR ch j t0 → CovR (typeStep ti avail .recv j ch t) j t0) ∧ CovR (typeStep ti avail .recv j ch t) j t := by
  unfold typeStep
  cases hb : bestMatch ti (fun p => (ch.get p).c.loose) avail t with
  | none =>
    simp only []
    have hat : RE ((ch.upd j (errStep .recv t)).get j) = ((ch.get j).usesRecv, (ch.get j).errRecv ++ [t]) := by
      rw [get_upd_same ch j _ hj]; rfl
    refine ⟨fun t0 h0 => ?_, ?_⟩
    · unfold CovR at h0 ⊢
      rw [hat]
      rcases h0 with h0 | h0
      · exact Or.inl (List.mem_append_left _ h0)
      · exact Or.inr h0
    · unfold CovR; rw [hat]; exact Or.inl (by simp)
  | some r =>
    obtain ⟨found, deps⟩ := r
    simp only []
    have hat : RE ((ch.upd j (rmapStep .recv t found)).get j) = RE (ch.get j) := by
      rw [get_upd_same ch j _ hj]; rfl
    have hl : j < (ch.upd j (rmapStep .recv t found)).length := by rw [upd_length]; exact hj
    have ⟨c1, c2⟩ := deps_covR j t deps (ch.upd j (rmapStep .recv t found)) hl
    obtain ⟨e, he, _, _, _, hne⟩ := bm_entry hb
    refine ⟨fun t0 h0 => c1 t0 (CovR_congr hat h0), c2 (hne (hav e he).2)⟩

theorem types_covR {ti : TyInfo} {O : Nat → List Ty} {avail : IMap} (j : Nat) (hav : AvU O (j + 1) avail) :
    ∀ (l : List Ty) (c : Chain), j < c.length →
      (∀ t0, CovR c j t0 → CovR (l.foldl (typeStep ti avail .recv j) c) j t0) ∧ (∀ t ∈ l, CovR (l.foldl (typeStep ti avail .recv j) c) j t)
  | [], c, _ => ⟨fun _ h => h, fun t ht => by cases ht⟩
  | t :: l, c, hj => by
    simp only [List.foldl_cons]
    have ⟨s1, s2⟩ := typeStep_covR (ti := ti) j c t hj hav
    have hl : j < (typeStep ti avail .recv j c t).length := by rw [typeStep_length']; exact hj
    have ⟨ih1, ih2⟩ := types_covR (ti := ti) j hav l (typeStep ti avail .recv j c t) hl
    refine ⟨fun t0 h0 => ih1 t0 (s1 t0 h0), fun t' ht' => ?_⟩
    rcases List.mem_cons.mp ht' with e | e
    · rw [e]; exact ih1 t s2
    · exact ih2 t' e

/-- after asking, every requested input type of the asker is dealt with -/
theorem requireParams_covR {ti : TyInfo} {O : Nat → List Ty} {avail : IMap} (j : Nat) (ch : Chain) (hj : j < ch.length)
    (hav : AvU O (j + 1) avail) : ∀ t ∈ (ch.get j).c.recv, t ≠ tNoType → CovR (requireParams ti ch j avail .recv) j t := by
  intro t ht hn
  rw [requireParams_eq]
  have hl : j < (ch.upd j (resetStep .recv)).length := by rw [upd_length]; exact hj
  have ⟨_, h2⟩ := types_covR (ti := ti) j hav ((flowOfParam (ch.get j) .recv).filter (· != tNoType)) (ch.upd j (resetStep .recv)) hl
  apply h2
  exact List.mem_filter.mpr ⟨ht, by simpa using hn⟩




/-! ### asking for inputs or bypass parameters touches neither record of anybody -/

theorem depStep_other_RE {param : Param} (hp : param ≠ .recv) (i : Nat) (t : Ty) (ch : Chain) (d : Nat) :
    Pres RE ch (depStep param i t ch d) := by
  cases param with
  | recv => exact absurd rfl hp
  | inp =>
    unfold depStep
    simp only []
    apply ite_Pres
    · refine Pres_trans ?_ (Pres_upd _ _ _ _ (fun f => rfl))
      refine Pres_trans ?_ (Pres_upd _ _ _ _ (fun f => rfl))
      exact Pres_upd _ _ _ _ (fun f => rfl)
    · refine Pres_trans ?_ (Pres_upd _ _ _ _ (fun f => rfl))
      exact Pres_upd _ _ _ _ (fun f => rfl)
  | byp =>
    unfold depStep
    simp only []
    apply ite_Pres
    · refine Pres_trans ?_ (Pres_upd _ _ _ _ (fun f => rfl))
      refine Pres_trans ?_ (Pres_upd _ _ _ _ (fun f => rfl))
      exact Pres_upd _ _ _ _ (fun f => rfl)
    · refine Pres_trans ?_ (Pres_upd _ _ _ _ (fun f => rfl))
      exact Pres_upd _ _ _ _ (fun f => rfl)

theorem typeStep_other_RE {param : Param} (hp : param ≠ .recv) (ti : TyInfo) (avail : IMap) (i : Nat) (ch : Chain) (t : Ty) :
    Pres RE ch (typeStep ti avail param i ch t) := by
  unfold typeStep
  split
  · exact Pres_upd _ ch i _ (fun f => by unfold errStep; cases param <;> first | exact absurd rfl hp | rfl)
  · refine Pres_trans ?_ (foldl_Pres _ _ (fun c d => depStep_other_RE hp i t c d) _ _)
    exact Pres_upd _ ch i _ (fun f => by unfold rmapStep; cases param <;> rfl)

theorem requireParams_other_RE {param : Param} (hp : param ≠ .recv) (ti : TyInfo) (ch : Chain) (i : Nat) (avail : IMap) :
    Pres RE ch (requireParams ti ch i avail param) := by
  rw [requireParams_eq]
  refine Pres_trans ?_ (foldl_Pres _ _ (fun c t => typeStep_other_RE hp ti avail i c t) _ _)
  exact Pres_upd _ ch i _ (fun f => by unfold resetStep; cases param <;> first | exact absurd rfl hp | rfl)

theorem provideParams_RE (ch : Chain) (i : Nat) (avail : IMap) (down : Bool) (layer : Nat) :
    Pres RE ch (provideParams ch i avail down layer).1 := by
  unfold provideParams
  simp only []
  exact Pres_upd _ ch i _ (fun f => by cases down <;> rfl)

theorem downStep_RE (ti : TyInfo) (initPos : Option Nat) (acc : Chain × IMap) (i : Nat) : Pres RE acc.1 (downStep ti initPos acc i).1 := by
  obtain ⟨ch, avail⟩ := acc
  unfold downStep
  simp only []
  split
  · exact Pres_refl _ _
  · have tail : ∀ c1 : Chain, Pres RE c1 (provideParams (requireParams ti c1 i avail .inp) i avail true (i + 2)).1 :=
      fun c1 => Pres_trans (requireParams_other_RE (param := .inp) (by simp) ti c1 i avail) (provideParams_RE _ i avail true _)
    cases initPos with
    | none => exact tail ch
    | some ip =>
      simp only []
      split
      · refine Pres_trans ?_ (tail _)
        exact Pres_trans (Pres_upd RE ch ip (fun f => { f with bypassRmap := [] }) (fun f => rfl))
          (requireParams_other_RE (param := .byp) (by simp) ti (ch.upd ip fun f => { f with bypassRmap := [] }) ip avail)
      · exact tail ch

theorem down_foldl_RE (ti : TyInfo) (initPos : Option Nat) : ∀ (l : List Nat) (acc : Chain × IMap),
    Pres RE acc.1 (l.foldl (downStep ti initPos) acc).1
  | [], acc => Pres_refl _ _
  | i :: l, acc => by
    simp only [List.foldl_cons]
    exact Pres_trans (downStep_RE ti initPos acc i) (down_foldl_RE ti initPos l _)

/-- the upward step of provider `i` leaves the records of every other provider alone -/
theorem upStep_PresExR (ti : TyInfo) (n : Nat) (acc : Chain × IMap) (i : Nat) : PresExR i acc.1 (upStep ti n acc i).1 := by
  obtain ⟨ch, avail⟩ := acc
  unfold upStep
  simp only []
  split
  · exact PresExR_refl _ _
  · exact PresExR_trans (requireParams_recv_PresExR ti ch i avail) (PresExR_of_Pres (provideParams_RE _ i avail false _))

/-- the invariant of the upward pass: providers from `lo` on that are not marked have all their expected types dealt with -/
structure COU (V : Nat → List Ty) (C : Nat → Bool) (lo : Nat) (ch : Chain) : Prop where
  hc : ∀ j, (ch.get j).c.recv = V j ∧ (ch.get j).cannot = C j
  a : ∀ j, lo ≤ j → C j = false → ∀ t ∈ V j, t ≠ tNoType → CovR ch j t

theorem upStep_COU {ti : TyInfo} {O V C} {n : Nat} {acc : Chain × IMap} {i : Nat}
    (h : COU V C (i + 1) acc.1) (hav : AvU O (i + 1) acc.2) (hil : i < acc.1.length) :
    COU V C i (upStep ti n acc i).1 := by
  have hsf := upStep_SF ti n acc i
  have hxf := upStep_XF ti n acc i
  have hpe := upStep_PresExR ti n acc i
  refine
    { hc := fun j => by rw [(hsf.2 j).2.2.1, (hxf.2 j).2.1]; exact h.hc j
      a := fun j hj hcj t ht hn => ?_ }
  by_cases hji : j = i
  · subst hji
    obtain ⟨ch, avail⟩ := acc
    have hcan : (ch.get j).cannot = false := by rw [(h.hc j).2]; exact hcj
    unfold upStep
    simp only []
    rw [if_neg (by simp [hcan])]
    have := requireParams_covR (ti := ti) j ch hil hav t (by rw [(h.hc j).1]; exact ht) hn
    exact CovR_congr (provideParams_RE _ j avail false _ j) this
  · exact CovR_congr (hpe j hji) (h.a j (by omega) hcj t ht hn)

theorem up_foldl_all {ti : TyInfo} {O V C} {n : Nat} : ∀ (k : Nat) (acc : Chain × IMap), k ≤ acc.1.length →
    SR ti O acc.1 → AvU O k acc.2 → COU V C k acc.1 →
    COU V C 0 (((List.range k).reverse.foldl (upStep ti n) acc).1)
  | 0, _, _, _, _, h => by simpa using h
  | k + 1, acc, hlen, hsr, hav, h => by
    rw [List.range_succ, List.reverse_append]
    simp only [List.reverse_cons, List.reverse_nil, List.nil_append, List.singleton_append, List.foldl_cons]
    have ⟨s1, s2⟩ := upStep_SR (ti := ti) (n := n) hsr hav
    have c1 := upStep_COU (ti := ti) (n := n) h hav (by omega)
    have hl : (upStep ti n acc k).1.length = acc.1.length := (upStep_SF ti n acc k).1
    exact up_foldl_all k _ (by rw [hl]; omega) s1 s2 c1

/-- **every expected type is dealt with**: after `providesReturns`, for a provider that is not marked "cannot be
    included", every type it expects from below is either in its error list or has a list of recorded sources -/
theorem providesReturns_coveredR (ti : TyInfo) (ch : Chain) (initPos : Option Nat) (j : Nat)
    (hc : ((providesReturns ti ch initPos).get j).cannot = false) :
    ∀ t ∈ ((providesReturns ti ch initPos).get j).c.recv, t ≠ tNoType →
      t ∈ ((providesReturns ti ch initPos).get j).errRecv ∨ ∃ e ∈ ((providesReturns ti ch initPos).get j).usesRecv, e.1 = t := by
  have hsf := providesReturns_SF ti ch initPos
  have hxf := providesReturns_XF ti ch initPos
  rw [(hsf.2 j).2.2.1]
  rw [(hxf.2 j).2.1] at hc
  intro t ht hn
  rw [providesReturns_eq]
  have sfd : SF ch ((List.range ch.length).foldl (downStep ti initPos) (ch.map resetDeps, ([] : IMap))).1 :=
    SF_trans (SF_map ch resetDeps (fun f => ⟨rfl, rfl, rfl, rfl⟩))
      (foldl_SF_pair (downStep ti initPos) (fun acc i => downStep_SF ti initPos acc i) (List.range ch.length) _)
  have xfd : XF ch ((List.range ch.length).foldl (downStep ti initPos) (ch.map resetDeps, ([] : IMap))).1 :=
    XF_trans (XF_map ch resetDeps (fun f => ⟨rfl, rfl, rfl, rfl⟩))
      (foldl_XF_pair (downStep ti initPos) (fun acc i => downStep_XF ti initPos acc i) (List.range ch.length) _)
  have pd := down_foldl_usesRecv ti initPos (List.range ch.length) (ch.map resetDeps, ([] : IMap))
  have u0 : SR ti (fun j => (ch.get j).c.ret) ((List.range ch.length).foldl (downStep ti initPos) (ch.map resetDeps, ([] : IMap))).1 :=
    { hc := fun j => by rw [(sfd.2 j).2.2.1]
      a := fun k e p he _ => by
        have hk : _ = _ := pd k
        simp only [] at hk
        rw [hk] at he
        by_cases hj : k < ch.length
        · have : Chain.get (ch.map resetDeps) k = resetDeps (ch.get k) := by
            simp [Chain.get, List.getD, List.getElem?_map, List.getElem?_eq_getElem hj]
          rw [this] at he; cases he
        · rw [get_default_of_ge _ k (by simpa using hj)] at he; cases he }
  have c0 : COU (fun j => (ch.get j).c.recv) (fun j => (ch.get j).cannot) ch.length
      ((List.range ch.length).foldl (downStep ti initPos) (ch.map resetDeps, ([] : IMap))).1 :=
    { hc := fun j => by rw [(sfd.2 j).2.2.1, (xfd.2 j).2.1]; exact ⟨rfl, rfl⟩
      a := fun j hj _ t ht _ => by
        rw [get_default_of_ge ch j (by omega)] at ht
        cases ht }
  have fin := up_foldl_all (ti := ti) (n := ch.length) ch.length
    (((List.range ch.length).foldl (downStep ti initPos) (ch.map resetDeps, ([] : IMap))).1, ([] : IMap))
    (by show ch.length ≤ _; rw [sfd.1]; exact Nat.le_refl _) u0 (fun e he => by cases he) c0
  exact fin.a j (Nat.zero_le _) hc t ht hn

end Nject
