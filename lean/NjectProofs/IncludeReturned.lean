import NjectProofs.IncludeSupply
/-
  Where the sources recorded for a RECEIVED value come from (the upward pass of `providesReturns`): whoever is listed in
  `usesRecv` of provider `k` under the expected type `t` stands after `k` (further down the chain) and returns `t`
  itself or a type that implements `t`.  The mirror image of IncludeSupply.lean; used for C02.
-/
namespace Nject

/-- what a recorded source `p` of the requested type `t` of provider `k` looks like -/
def GoodU (ti : TyInfo) (O : Nat → List Ty) (k : Nat) (t : Ty) (p : Nat) : Prop :=
  k < p ∧ ∃ x, x ∈ O p ∧ (x = t ∨ ti.implements x t = true)

/-- the invariant of the upward pass; `O` are the (static) returned types by position -/
structure SR (ti : TyInfo) (O : Nat → List Ty) (ch : Chain) : Prop where
  hc : ∀ j, (ch.get j).c.ret = O j
  a : ∀ k e p, e ∈ (ch.get k).usesRecv → p ∈ e.2 → GoodU ti O k e.1 p

theorem SR_frame {ti O ch} (h : SR ti O ch) (k : Nat) (g : IP → IP)
    (hg : ∀ f, (g f).usesRecv = f.usesRecv ∧ (g f).c = f.c) : SR ti O (ch.upd k g) := by
  have hu : ∀ j, ((ch.upd k g).get j).usesRecv = (ch.get j).usesRecv ∧ ((ch.upd k g).get j).c = (ch.get j).c := by
    intro j
    rw [get_upd]
    split
    · rename_i hc; rw [hc.1]; exact hg _
    · exact ⟨rfl, rfl⟩
  exact
    { hc := fun j => by rw [(hu j).2]; exact h.hc j
      a := fun k' e p he hp => h.a k' e p (by rw [← (hu k').1]; exact he) hp }

theorem SR_shrink {ti O ch} (h : SR ti O ch) (k : Nat) (g : IP → IP)
    (hg : ∀ f, (∀ e ∈ (g f).usesRecv, e ∈ f.usesRecv) ∧ (g f).c = f.c) : SR ti O (ch.upd k g) := by
  exact
    { hc := fun j => by
        rw [get_upd]; split
        · rename_i hj; rw [(hg _).2, hj.1]; exact h.hc k
        · exact h.hc j
      a := fun k' e p he hp => by
        rw [get_upd] at he
        split at he
        · rename_i hj
          rw [hj.1]; exact h.a k e p ((hg _).1 e he) hp
        · exact h.a k' e p he hp }

theorem SR_addSource {ti O ch} (h : SR ti O ch) (k d : Nat) (t : Ty) (g : IP → IP)
    (hg : ∀ f, (g f).usesRecv = appendAt f.usesRecv t d ∧ (g f).c = f.c)
    (hgood : GoodU ti O k t d) : SR ti O (ch.upd k g) := by
  exact
    { hc := fun j => by
        rw [get_upd]
        split
        · rename_i hj; rw [(hg _).2, hj.1]; exact h.hc k
        · exact h.hc j
      a := fun k' e p he hp => by
        rw [get_upd] at he
        split at he
        · rename_i hj
          rw [(hg _).1] at he
          rcases mem_appendAt_entry he hp with ⟨e0, he0, hk0, hp0⟩ | ⟨hkt, hpd⟩
          · rw [hj.1, ← hk0]; exact h.a k e0 p he0 hp0
          · rw [hj.1, hkt, hpd]; exact hgood
        · exact h.a k' e p he hp }

theorem SR_ite {ti O} {x y : Chain} (c : Prop) [Decidable c] (hx : SR ti O x) (hy : SR ti O y) :
    SR ti O (if c then x else y) := by
  split
  · exact hx
  · exact hy

theorem depStep_SR {ti O ch} {param : Param} {k : Nat} {t : Ty} {d : Nat}
    (h : SR ti O ch) (hgood : param = .recv → GoodU ti O k t d) : SR ti O (depStep param k t ch d) := by
  cases param with
  | recv =>
    unfold depStep
    simp only []
    have h1 := SR_addSource h k d t (fun f => { f with usesRecv := appendAt f.usesRecv t d, uses := f.uses ++ [d] })
      (fun f => ⟨rfl, rfl⟩) (hgood rfl)
    have h2 := SR_frame h1 d (fun g => { g with usedBy := g.usedBy ++ [k], usedByRet := appendAt g.usedByRet t k }) (fun f => ⟨rfl, rfl⟩)
    apply SR_ite
    · exact SR_frame h2 k (fun f => { f with usedBy := f.usedBy ++ [d] }) (fun f => ⟨rfl, rfl⟩)
    · exact h2
  | byp =>
    unfold depStep
    simp only []
    have h1 := SR_frame h k (fun f => { f with usesByp := appendAt f.usesByp t d, uses := f.uses ++ [d] }) (fun f => ⟨rfl, rfl⟩)
    have h2 := SR_frame h1 d (fun g => { g with usedBy := g.usedBy ++ [k], usedByOut := appendAt g.usedByOut t k }) (fun f => ⟨rfl, rfl⟩)
    apply SR_ite
    · exact SR_frame h2 k (fun f => { f with usedBy := f.usedBy ++ [d] }) (fun f => ⟨rfl, rfl⟩)
    · exact h2
  | inp =>
    unfold depStep
    simp only []
    have h1 := SR_frame h k (fun f => { f with usesIn := appendAt f.usesIn t d, uses := f.uses ++ [d] }) (fun f => ⟨rfl, rfl⟩)
    have h2 := SR_frame h1 d (fun g => { g with usedBy := g.usedBy ++ [k], usedByOut := appendAt g.usedByOut t k }) (fun f => ⟨rfl, rfl⟩)
    apply SR_ite
    · exact SR_frame h2 k (fun f => { f with usedBy := f.usedBy ++ [d] }) (fun f => ⟨rfl, rfl⟩)
    · exact h2

theorem deps_foldl_SR {ti O} {param : Param} {k : Nat} {t : Ty} :
    ∀ (deps : List Nat) (ch : Chain), SR ti O ch → (param = .recv → ∀ d ∈ deps, GoodU ti O k t d) →
      SR ti O (deps.foldl (depStep param k t) ch)
  | [], _, h, _ => h
  | d :: deps, ch, h, hd => by
    simp only [List.foldl_cons]
    exact deps_foldl_SR deps _ (depStep_SR h (fun hp => hd hp d (by simp))) (fun hp x hx => hd hp x (by simp [hx]))

/-- the table lists providers from `lo` on only, each under a type it returns, and no entry is empty -/
def AvU (O : Nat → List Ty) (lo : Nat) (avail : IMap) : Prop :=
  ∀ e ∈ avail, (∀ p ∈ e.2.2, lo ≤ p ∧ e.1 ∈ O p) ∧ e.2.2 ≠ []

theorem typeStep_SR {ti : TyInfo} {O ch avail} {param : Param} {k : Nat} {t : Ty}
    (h : SR ti O ch) (hav : param = .recv → AvU O (k + 1) avail) : SR ti O (typeStep ti avail param k ch t) := by
  unfold typeStep
  cases hb : bestMatch ti (fun p => (ch.get p).c.loose) avail t with
  | none =>
    simp only []
    exact SR_frame h k _ (fun f => by unfold errStep; cases param <;> exact ⟨rfl, rfl⟩)
  | some r =>
    obtain ⟨found, deps⟩ := r
    simp only []
    apply deps_foldl_SR deps _ (SR_frame h k _ (fun f => by unfold rmapStep; cases param <;> exact ⟨rfl, rfl⟩))
    intro hp d hd
    obtain ⟨e, he, hk, hde, hfw, _⟩ := bm_entry hb
    have ⟨hlt, hout⟩ := ((hav hp) e he).1 d (hde d hd)
    exact ⟨hlt, found, by rw [← hk]; exact hout, hfw⟩

theorem types_foldl_SR {ti : TyInfo} {O avail} {param : Param} {k : Nat} (hav : param = .recv → AvU O (k + 1) avail) :
    ∀ (l : List Ty) (ch : Chain), SR ti O ch → SR ti O (l.foldl (typeStep ti avail param k) ch)
  | [], _, h => h
  | t :: l, ch, h => by
    simp only [List.foldl_cons]
    exact types_foldl_SR hav l _ (typeStep_SR h hav)

theorem requireParams_SR {ti : TyInfo} {O ch avail} {param : Param} {k : Nat}
    (h : SR ti O ch) (hav : param = .recv → AvU O (k + 1) avail) : SR ti O (requireParams ti ch k avail param) := by
  rw [requireParams_eq]
  refine types_foldl_SR hav _ _ (SR_shrink h k _ (fun f => ?_))
  unfold resetStep
  cases param
  · exact ⟨fun e he => he, rfl⟩
  · exact ⟨fun e he => (by cases he), rfl⟩
  · exact ⟨fun e he => he, rfl⟩

theorem AvU_mono {O lo avail} (h : AvU O (lo + 1) avail) : AvU O lo avail :=
  fun e he => ⟨fun p hp => ⟨Nat.le_of_succ_le (((h e he).1 p hp).1), ((h e he).1 p hp).2⟩, (h e he).2⟩

theorem upStep_SR {ti : TyInfo} {O} {n : Nat} {acc : Chain × IMap} {i : Nat}
    (h : SR ti O acc.1) (hav : AvU O (i + 1) acc.2) :
    SR ti O (upStep ti n acc i).1 ∧ AvU O i (upStep ti n acc i).2 := by
  obtain ⟨ch, avail⟩ := acc
  unfold upStep
  simp only []
  split
  · exact ⟨h, AvU_mono hav⟩
  · have h2 : SR ti O (requireParams ti ch i avail .recv) := requireParams_SR h (fun _ => hav)
    unfold provideParams
    simp only [Bool.false_eq_true, if_false]
    refine ⟨SR_frame h2 i _ (fun f => ⟨rfl, rfl⟩), ?_⟩
    intro e he
    have ⟨s1, s2⟩ := adds_back (n - i + 2) i (((requireParams ti ch i avail .recv).get i).c.ret.filter
      (fun t => t != tNoType && (t != tUnused || ((requireParams ti ch i avail .recv).get i).c.synthetic))) avail
    refine ⟨fun p hp => ?_, s2 (fun e0 he0 => (hav e0 he0).2) e he⟩
    rcases s1 e he p hp with ⟨e0, he0, hk0, hp0⟩ | ⟨hpi, hel⟩
    · have := (hav e0 he0).1 p hp0
      exact ⟨Nat.le_of_succ_le this.1, by rw [← hk0]; exact this.2⟩
    · rw [hpi]
      refine ⟨Nat.le_refl i, ?_⟩
      rw [← h2.hc i]
      exact (List.mem_filter.mp hel).1

theorem up_foldl_SR {ti : TyInfo} {O} {n : Nat} : ∀ (k : Nat) (acc : Chain × IMap), SR ti O acc.1 → AvU O k acc.2 →
    SR ti O (((List.range k).reverse.foldl (upStep ti n) acc).1)
  | 0, _, h, _ => by simpa using h
  | k + 1, acc, h, hav => by
    rw [List.range_succ, List.reverse_append]
    simp only [List.reverse_cons, List.reverse_nil, List.nil_append, List.singleton_append, List.foldl_cons]
    have ⟨h1, h2⟩ := upStep_SR (ti := ti) (n := n) h hav
    exact up_foldl_SR k _ h1 h2

/-! ### the downward pass does not touch `usesRecv` -/

theorem depStep_down_usesRecv {param : Param} (hp : param ≠ .recv) (i : Nat) (t : Ty) (ch : Chain) (d : Nat) :
    Pres (·.usesRecv) ch (depStep param i t ch d) := by
  cases param with
  | recv => exact absurd rfl hp
  | inp =>
    unfold depStep
    simp only []
    apply ite_Pres
    · refine Pres_trans ?_ (Pres_upd _ _ _ _ (fun f => rfl))
      refine Pres_trans ?_ (Pres_upd _ _ _ _ (fun f => rfl))
      exact Pres_upd _ _ _ _ (fun f => rfl)
    · refine Pres_trans ?_ (Pres_upd _ _ _ _ (fun f => rfl))
      exact Pres_upd _ _ _ _ (fun f => rfl)
  | byp =>
    unfold depStep
    simp only []
    apply ite_Pres
    · refine Pres_trans ?_ (Pres_upd _ _ _ _ (fun f => rfl))
      refine Pres_trans ?_ (Pres_upd _ _ _ _ (fun f => rfl))
      exact Pres_upd _ _ _ _ (fun f => rfl)
    · refine Pres_trans ?_ (Pres_upd _ _ _ _ (fun f => rfl))
      exact Pres_upd _ _ _ _ (fun f => rfl)

theorem typeStep_down_usesRecv {param : Param} (hp : param ≠ .recv) (ti : TyInfo) (avail : IMap) (i : Nat) (ch : Chain) (t : Ty) :
    Pres (·.usesRecv) ch (typeStep ti avail param i ch t) := by
  unfold typeStep
  split
  · exact Pres_upd _ ch i _ (fun f => by unfold errStep; cases param <;> first | exact absurd rfl hp | rfl)
  · refine Pres_trans ?_ (foldl_Pres _ _ (fun c d => depStep_down_usesRecv hp i t c d) _ _)
    exact Pres_upd _ ch i _ (fun f => by unfold rmapStep; cases param <;> rfl)

theorem requireParams_down_usesRecv {param : Param} (hp : param ≠ .recv) (ti : TyInfo) (ch : Chain) (i : Nat) (avail : IMap) :
    Pres (·.usesRecv) ch (requireParams ti ch i avail param) := by
  rw [requireParams_eq]
  refine Pres_trans ?_ (foldl_Pres _ _ (fun c t => typeStep_down_usesRecv hp ti avail i c t) _ _)
  exact Pres_upd _ ch i _ (fun f => by unfold resetStep; cases param <;> first | exact absurd rfl hp | rfl)

theorem downStep_usesRecv (ti : TyInfo) (initPos : Option Nat) (acc : Chain × IMap) (i : Nat) :
    Pres (·.usesRecv) acc.1 (downStep ti initPos acc i).1 := by
  obtain ⟨ch, avail⟩ := acc
  unfold downStep
  simp only []
  split
  · exact Pres_refl _ _
  · have tail : ∀ c1 : Chain, Pres (·.usesRecv) c1 (provideParams (requireParams ti c1 i avail .inp) i avail true (i + 2)).1 := by
      intro c1
      unfold provideParams
      simp only [if_true]
      exact Pres_trans (requireParams_down_usesRecv (param := .inp) (by simp) ti c1 i avail) (Pres_upd _ _ i _ (fun f => rfl))
    cases initPos with
    | none => exact tail ch
    | some ip =>
      simp only []
      split
      · refine Pres_trans ?_ (tail _)
        exact Pres_trans (Pres_upd (·.usesRecv) ch ip (fun f => { f with bypassRmap := [] }) (fun f => rfl))
          (requireParams_down_usesRecv (param := .byp) (by simp) ti (ch.upd ip fun f => { f with bypassRmap := [] }) ip avail)
      · exact tail ch

theorem down_foldl_usesRecv (ti : TyInfo) (initPos : Option Nat) : ∀ (l : List Nat) (acc : Chain × IMap),
    Pres (·.usesRecv) acc.1 (l.foldl (downStep ti initPos) acc).1
  | [], acc => Pres_refl _ _
  | i :: l, acc => by
    simp only [List.foldl_cons]
    exact Pres_trans (downStep_usesRecv ti initPos acc i) (down_foldl_usesRecv ti initPos l _)

/-- **where recorded sources of received values come from**: after `providesReturns`, whoever is listed as a source of
    the expected type `e.1` of provider `k` is listed after `k` and returns that type or a type implementing it -/
theorem providesReturns_returned (ti : TyInfo) (ch : Chain) (initPos : Option Nat) :
    ∀ k e p, e ∈ ((providesReturns ti ch initPos).get k).usesRecv → p ∈ e.2 →
      k < p ∧ ∃ x, x ∈ ((providesReturns ti ch initPos).get p).c.ret ∧ (x = e.1 ∨ ti.implements x e.1 = true) := by
  have hsf := providesReturns_SF ti ch initPos
  rw [providesReturns_eq] at hsf ⊢
  have sfd : SF ch ((List.range ch.length).foldl (downStep ti initPos) (ch.map resetDeps, ([] : IMap))).1 :=
    SF_trans (SF_map ch resetDeps (fun f => ⟨rfl, rfl, rfl, rfl⟩))
      (foldl_SF_pair (downStep ti initPos) (fun acc i => downStep_SF ti initPos acc i) (List.range ch.length) _)
  have pd := down_foldl_usesRecv ti initPos (List.range ch.length) (ch.map resetDeps, ([] : IMap))
  have u0 : SR ti (fun j => (ch.get j).c.ret) ((List.range ch.length).foldl (downStep ti initPos) (ch.map resetDeps, ([] : IMap))).1 :=
    { hc := fun j => by rw [(sfd.2 j).2.2.1]
      a := fun k e p he _ => by
        have hk : _ = _ := pd k
        simp only [] at hk
        rw [hk] at he
        by_cases hj : k < ch.length
        · have : Chain.get (ch.map resetDeps) k = resetDeps (ch.get k) := by
            simp [Chain.get, List.getD, List.getElem?_map, List.getElem?_eq_getElem hj]
          rw [this] at he; cases he
        · rw [get_default_of_ge _ k (by simpa using hj)] at he; cases he }
  have u1 := up_foldl_SR (ti := ti) (n := ch.length) ch.length
    (((List.range ch.length).foldl (downStep ti initPos) (ch.map resetDeps, ([] : IMap))).1, ([] : IMap)) u0 (fun e he => by cases he)
  intro k e q he hq
  have ⟨h1, x, hx, hxt⟩ := u1.a k e q he hq
  refine ⟨h1, x, ?_, hxt⟩
  rw [(hsf.2 q).2.2.1]
  exact hx

end Nject
