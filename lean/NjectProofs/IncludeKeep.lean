import NjectProofs.IncludeTerm2
/-
  What `proposeEliminations` keeps (include.go:509-583): the keep-closure contains its seeds and, with every kept
  provider, the source chosen for each of its requested types (the nearest one that can still be included).  So a
  provider is proposed for elimination only if it is Shun'd or if no kept provider's chosen source is it.
-/
namespace Nject

/-- the sources the closure adds for provider `i`: per requested type, the nearest source that can still be included -/
def kcNext (ch : Chain) (down : Bool) (i : Nat) : List Nat :=
  (if down then (ch.get i).usesIn ++ (ch.get i).usesByp else (ch.get i).usesRecv).filterMap fun e =>
    if down then (e.2.filter fun d => !(ch.get d).cannot && !(ch.get d).excluded).getLast?
    else (e.2.filter fun d => !(ch.get d).cannot && !(ch.get d).excluded).head?

theorem kcNext_length_le (ch : Chain) (down : Bool) (i : Nat) : (kcNext ch down i).length ≤ kcW ch down i := by
  unfold kcNext kcW
  exact length_filterMap_le' _ _

theorem kcMeasure_skip (ch : Chain) (down : Bool) (i : Nat) (toKeep keep : List Nat) :
    kcMeasure ch down toKeep keep + 1 = kcMeasure ch down (i :: toKeep) keep := by
  simp [kcMeasure]; omega

theorem kcMeasure_new (ch : Chain) (down : Bool) (i : Nat) (toKeep keep nxt : List Nat)
    (hk : keep.contains i = false) (hn : nxt.length ≤ kcW ch down i) :
    kcMeasure ch down (toKeep ++ nxt) (i :: keep) ≤ kcMeasure ch down toKeep keep := by
  unfold kcMeasure
  have hs := kc_sum_cons (kcW ch down) keep i hk (List.range ch.length) List.nodup_range
  rw [List.length_append]
  by_cases hir : i ∈ List.range ch.length
  · simp only [hir, if_true] at hs; omega
  · simp only [hir, if_false, Nat.add_zero] at hs
    have hge : ¬ i < ch.length := by simpa using hir
    have hw : kcW ch down i = 0 := by
      unfold kcW
      rw [get_default_of_ge ch i hge]
      cases down <;> rfl
    omega

/-- the invariant of the work-list loop: what a kept provider asks for is kept or waiting -/
def KInv (ch : Chain) (down : Bool) (toKeep keep : List Nat) : Prop :=
  ∀ i ∈ keep, ∀ k ∈ kcNext ch down i, k ∈ keep ∨ k ∈ toKeep

theorem keepClosure_step_eq (ch : Chain) (down : Bool) (fuel i : Nat) (toKeep keep : List Nat) (hk : keep.contains i = false) :
    keepClosure ch down (fuel + 1) (i :: toKeep) keep
      = keepClosure ch down fuel (toKeep ++ (kcNext ch down i).filter fun k => !(i :: keep).contains k) (i :: keep) := by
  simp only [keepClosure, hk, Bool.false_eq_true, if_false]
  rfl

/-- **the keep-closure is closed**: with enough fuel, the result contains everything kept or waiting at the start and,
    with every member, the sources chosen for it -/
theorem keepClosure_closed (ch : Chain) (down : Bool) : ∀ (fuel : Nat) (toKeep keep : List Nat),
    kcMeasure ch down toKeep keep ≤ fuel → KInv ch down toKeep keep →
      (∀ i, i ∈ keep ∨ i ∈ toKeep → i ∈ keepClosure ch down fuel toKeep keep) ∧
      (∀ i ∈ keepClosure ch down fuel toKeep keep, ∀ k ∈ kcNext ch down i, k ∈ keepClosure ch down fuel toKeep keep)
  | fuel, [], keep, _, hinv => by
    have : keepClosure ch down fuel [] keep = keep := by cases fuel <;> simp [keepClosure]
    rw [this]
    refine ⟨fun i hi => ?_, fun i hi k hk => ?_⟩
    · rcases hi with hi | hi
      · exact hi
      · cases hi
    · rcases hinv i hi k hk with h | h
      · exact h
      · cases h
  | 0, i :: toKeep, keep, hm, _ => by simp [kcMeasure] at hm
  | fuel + 1, i :: toKeep, keep, hm, hinv => by
    have hskip := kcMeasure_skip ch down i toKeep keep
    by_cases hk : keep.contains i = true
    · have heq : keepClosure ch down (fuel + 1) (i :: toKeep) keep = keepClosure ch down fuel toKeep keep := by
        simp only [keepClosure, hk, if_true]
      rw [heq]
      have hinv' : KInv ch down toKeep keep := by
        intro j hj k hkk
        rcases hinv j hj k hkk with h | h
        · exact Or.inl h
        · rcases List.mem_cons.mp h with e | e
          · left; rw [e]; simpa using hk
          · exact Or.inr e
      have ⟨r1, r2⟩ := keepClosure_closed ch down fuel toKeep keep (by omega) hinv'
      refine ⟨fun j hj => ?_, r2⟩
      rcases hj with hj | hj
      · exact r1 j (Or.inl hj)
      · rcases List.mem_cons.mp hj with e | e
        · rw [e]; exact r1 i (Or.inl (by simpa using hk))
        · exact r1 j (Or.inr e)
    · have hk' : keep.contains i = false := by simpa using hk
      rw [keepClosure_step_eq ch down fuel i toKeep keep hk']
      have hlen : ((kcNext ch down i).filter fun k => !(i :: keep).contains k).length ≤ kcW ch down i :=
        Nat.le_trans (List.length_filter_le _ _) (kcNext_length_le ch down i)
      have hm' := kcMeasure_new ch down i toKeep keep _ hk' hlen
      have hinv' : KInv ch down (toKeep ++ (kcNext ch down i).filter fun k => !(i :: keep).contains k) (i :: keep) := by
        intro j hj k hkk
        rcases List.mem_cons.mp hj with e | e
        · rw [e] at hkk
          by_cases hin : (i :: keep).contains k = true
          · left; simpa using hin
          · right
            exact List.mem_append_right _ (List.mem_filter.mpr ⟨hkk, by simpa using hin⟩)
        · rcases hinv j e k hkk with h | h
          · exact Or.inl (List.mem_cons_of_mem _ h)
          · rcases List.mem_cons.mp h with e2 | e2
            · left; rw [e2]; simp
            · exact Or.inr (List.mem_append_left _ e2)
      have ⟨r1, r2⟩ := keepClosure_closed ch down fuel _ (i :: keep) (by omega) hinv'
      refine ⟨fun j hj => ?_, r2⟩
      rcases hj with hj | hj
      · exact r1 j (Or.inl (List.mem_cons_of_mem _ hj))
      · rcases List.mem_cons.mp hj with e | e
        · rw [e]; exact r1 i (Or.inl (by simp))
        · exact r1 j (Or.inr (List.mem_append_left _ e))

end Nject
