import NjectProps.C03C15
/-
  The worklist of `validateChainMarkIncludeExclude` / `checkFlows` (include.go:221-345) reaches a
  fixpoint: when it accepts, EVERY included provider passes the local check (its inputs have
  included sources, its must-consume outputs and its returned values have included consumers)
  against the FINAL include flags -- not merely against the flags at the moment it was looked at.

  This rests on dependencies being recorded in both directions (`depsSymB`): when a provider drops
  out, everybody whose check read its flag is put back on the list.
-/
namespace Nject

/-! ### `localCheck` only reads include flags of the providers in `watch` -/

theorem any_congr' {α} {l : List α} {p q : α → Bool} (h : ∀ x ∈ l, p x = q x) : l.any p = l.any q := by
  induction l with
  | nil => rfl
  | cons a l ih =>
    simp only [List.any_cons]
    rw [h a (by simp), ih (fun x hx => h x (by simp [hx]))]

theorem all_congr' {α} {l : List α} {p q : α → Bool} (h : ∀ x ∈ l, p x = q x) : l.all p = l.all q := by
  induction l with
  | nil => rfl
  | cons a l ih =>
    simp only [List.all_cons]
    rw [h a (by simp), ih (fun x hx => h x (by simp [hx]))]

theorem lookupL_mem {l : List (Ty × List Nat)} {t : Ty} {v : List Nat} (h : l.lookup t = some v) : (t, v) ∈ l := by
  induction l with
  | nil => simp [List.lookup] at h
  | cons e l ih =>
    obtain ⟨t', v'⟩ := e
    unfold List.lookup at h
    by_cases heq : t == t'
    · simp only [heq] at h
      have : t = t' := by simpa using heq
      cases h; subst this; simp
    · simp only [heq] at h
      exact List.mem_cons_of_mem _ (ih h)

theorem mem_flatMap_snd {l : List (Ty × List Nat)} {e : Ty × List Nat} {p : Nat} (he : e ∈ l) (hp : p ∈ e.2) :
    p ∈ l.flatMap (·.2) := List.mem_flatMap.mpr ⟨e, he, hp⟩

theorem localCheck_congr (ch ch' : Chain) (f : IP) (h : ∀ p ∈ f.watch, (ch.get p).inc = (ch'.get p).inc) :
    localCheck ch f = localCheck ch' f := by
  unfold localCheck
  have hsrc : (f.usesIn ++ f.usesRecv ++ f.usesByp).all (fun e => e.2.any fun p => (ch.get p).inc)
      = (f.usesIn ++ f.usesRecv ++ f.usesByp).all (fun e => e.2.any fun p => (ch'.get p).inc) := by
    apply all_congr'
    intro e he
    apply any_congr'
    intro p hp
    apply h
    unfold IP.watch
    exact List.mem_append_left _ (List.mem_append_left _ (mem_flatMap_snd he hp))
  have hout : (!f.mcOut || f.c.out.all fun t =>
        !f.c.mustConsume.contains t || t == tUnused || ((f.usedByOut.lookup t).getD []).any fun p => (ch.get p).inc)
      = (!f.mcOut || f.c.out.all fun t =>
        !f.c.mustConsume.contains t || t == tUnused || ((f.usedByOut.lookup t).getD []).any fun p => (ch'.get p).inc) := by
    cases hm : f.mcOut with
    | false => rfl
    | true =>
      simp only [Bool.not_true, Bool.false_or]
      apply all_congr'
      intro t _
      congr 1
      apply any_congr'
      intro p hp
      apply h
      unfold IP.watch
      cases hl : f.usedByOut.lookup t with
      | none => simp [hl] at hp
      | some v =>
        simp only [hl, Option.getD_some] at hp
        apply List.mem_append_left
        apply List.mem_append_right
        simp only [hm, if_true]
        exact mem_flatMap_snd (lookupL_mem hl) hp
  have hret : (!f.mcRet || f.c.ret.all fun t =>
        f.c.consOpt.contains t || t == tUnused || ((f.usedByRet.lookup t).getD []).any fun p => (ch.get p).inc)
      = (!f.mcRet || f.c.ret.all fun t =>
        f.c.consOpt.contains t || t == tUnused || ((f.usedByRet.lookup t).getD []).any fun p => (ch'.get p).inc) := by
    cases hm : f.mcRet with
    | false => rfl
    | true =>
      simp only [Bool.not_true, Bool.false_or]
      apply all_congr'
      intro t _
      congr 1
      apply any_congr'
      intro p hp
      apply h
      unfold IP.watch
      cases hl : f.usedByRet.lookup t with
      | none => simp [hl] at hp
      | some v =>
        simp only [hl, Option.getD_some] at hp
        apply List.mem_append_right
        simp only [hm, if_true]
        exact mem_flatMap_snd (lookupL_mem hl) hp
  rw [hsrc, hout, hret]

/-! ### updates that only touch the two flags -/

/-- `b` is `a` with other values of `inc` and `cannot` -/
def flagsOnly (a b : IP) : Prop := { a with inc := b.inc, cannot := b.cannot } = b

theorem flagsOnly_refl (a : IP) : flagsOnly a a := rfl

theorem flagsOnly_watch {a b : IP} (h : flagsOnly a b) : b.watch = a.watch := by
  unfold flagsOnly at h; rw [← h]; rfl

theorem flagsOnly_usedBy {a b : IP} (h : flagsOnly a b) : b.usedBy = a.usedBy := by
  unfold flagsOnly at h; rw [← h]

theorem flagsOnly_localCheck {a b : IP} (h : flagsOnly a b) (ch : Chain) : localCheck ch b = localCheck ch a := by
  unfold flagsOnly at h; rw [← h]; rfl

/-- dependencies are recorded in both directions -/
def Sym (ch : Chain) : Prop := ∀ j p, p ∈ (ch.get j).watch → j ∈ (ch.get p).usedBy

theorem Sym_upd {ch : Chain} (hs : Sym ch) (i : Nat) (g : IP → IP) (hg : flagsOnly (ch.get i) (g (ch.get i))) :
    Sym (ch.upd i g) := by
  by_cases hlt : i < ch.length
  · intro j p hp
    have hw : ((ch.upd i g).get j).watch = (ch.get j).watch := by
      by_cases hji : j = i
      · subst hji; rw [get_upd_same ch j g hlt]; exact flagsOnly_watch hg
      · rw [get_upd_other ch i j g (Ne.symm hji)]
    have hu : ((ch.upd i g).get p).usedBy = (ch.get p).usedBy := by
      by_cases hpi : p = i
      · subst hpi; rw [get_upd_same ch p g hlt]; exact flagsOnly_usedBy hg
      · rw [get_upd_other ch i p g (Ne.symm hpi)]
    rw [hu]; rw [hw] at hp; exact hs j p hp
  · rw [get_upd_oob ch i g hlt]; exact hs

theorem depsSymB_sym {ch : Chain} (h : depsSymB ch = true) : Sym ch := by
  intro j p hp
  by_cases hj : j < ch.length
  · unfold depsSymB at h
    rw [List.all_eq_true] at h
    have := h j (by simpa using hj)
    rw [List.all_eq_true] at this
    simpa using this p hp
  · have : ch.get j = default := by
      have hle : ch.length ≤ j := Nat.le_of_not_lt hj
      simp [Chain.get, List.getD, List.getElem?_eq_none hle]
    rw [this] at hp
    have hd : (default : IP).watch = [] := rfl
    rw [hd] at hp
    cases hp

/-- dropping provider `i` (or marking it) leaves the check of everybody who does not list... who is
    not in `usedBy i` as it was -/
theorem localCheck_upd_other {ch : Chain} (hs : Sym ch) (i j : Nat) (g : IP → IP) (hji : j ≠ i)
    (hnot : j ∉ (ch.get i).usedBy) :
    localCheck (ch.upd i g) ((ch.upd i g).get j) = localCheck ch (ch.get j) := by
  rw [get_upd_other ch i j g (Ne.symm hji)]
  apply localCheck_congr
  intro p hp
  have hpi : p ≠ i := by
    intro hpi; subst hpi
    exact hnot (hs j p hp)
  rw [get_upd_other ch i p g (Ne.symm hpi)]

/-- an update that leaves every `inc` flag alone changes nobody's check -/
theorem localCheck_upd_sameInc {ch : Chain} (i j : Nat) (g : IP → IP) (hg : flagsOnly (ch.get i) (g (ch.get i)))
    (hinc : (g (ch.get i)).inc = (ch.get i).inc) :
    localCheck (ch.upd i g) ((ch.upd i g).get j) = localCheck ch (ch.get j) := by
  by_cases hlt : i < ch.length
  · have hincs : ∀ p, ((ch.upd i g).get p).inc = (ch.get p).inc := by
      intro p
      by_cases hpi : p = i
      · subst hpi; rw [get_upd_same ch p g hlt]; exact hinc
      · rw [get_upd_other ch i p g (Ne.symm hpi)]
    have h1 : localCheck (ch.upd i g) ((ch.upd i g).get j) = localCheck ch ((ch.upd i g).get j) :=
      localCheck_congr _ _ _ (fun p _ => hincs p)
    rw [h1]
    by_cases hji : j = i
    · subst hji; rw [get_upd_same ch j g hlt]; exact flagsOnly_localCheck hg ch
    · rw [get_upd_other ch i j g (Ne.symm hji)]
  · rw [get_upd_oob ch i g hlt]

/-! ### the worklist invariant -/

/-- every included provider that is marked impossible or fails its check is still to be looked at -/
def W (ch : Chain) (todo seen redo : List Nat) : Prop :=
  ∀ j, (ch.get j).inc = true → ((ch.get j).cannot = true ∨ localCheck ch (ch.get j) = false) →
    (j ∈ todo ∧ j ∉ seen) ∨ j ∈ redo

theorem get_default_of_ge (ch : Chain) (j : Nat) (h : ¬ j < ch.length) : ch.get j = default := by
  have hle : ch.length ≤ j := Nat.le_of_not_lt h
  simp [Chain.get, List.getD, List.getElem?_eq_none hle]

theorem checkPass_W (b : Bool) : ∀ (todo : List Nat) (ch : Chain) (seen redo : List Nat) (ch' : Chain) (redo' : List Nat),
    checkPass b todo ch seen redo = .ok (ch', redo') → Sym ch → W ch todo seen redo →
      Sym ch' ∧ W ch' [] [] redo'
  | [], ch, seen, redo, ch', redo', h, hs, hw => by
    simp only [checkPass] at h; cases h
    refine ⟨hs, ?_⟩
    intro j hi hbad
    rcases hw j hi hbad with ⟨hm, _⟩ | hr
    · cases hm
    · exact Or.inr hr
  | i :: todo, ch, seen, redo, ch', redo', h, hs, hw => by
    simp only [checkPass] at h
    split at h
    · -- already seen in this pass
      rename_i hseen
      refine checkPass_W b todo ch seen redo ch' redo' h hs ?_
      intro j hi hbad
      rcases hw j hi hbad with ⟨hm, hns⟩ | hr
      · rcases List.mem_cons.mp hm with rfl | hm
        · exact absurd (by simpa using hseen) hns
        · exact Or.inl ⟨hm, hns⟩
      · exact Or.inr hr
    · split at h
      · -- marked impossible
        rename_i hcannot
        split at h
        · cases h
        · split at h
          · cases h
          · split at h
            · -- included: drop it, re-check its dependents
              rename_i hinc
              refine checkPass_W b todo _ _ _ ch' redo' h (Sym_upd hs i _ rfl) ?_
              intro j hi hbad
              by_cases hji : j = i
              · subst hji
                by_cases hlt : j < ch.length
                · rw [get_upd_same ch j _ hlt] at hi; simp at hi
                · rw [get_upd_oob ch j _ hlt, get_default_of_ge ch j hlt] at hi; cases hi
              · rw [get_upd_other ch i j _ (Ne.symm hji)] at hi
                by_cases hdep : j ∈ (ch.get i).usedBy
                · exact Or.inr (List.mem_append_right _ hdep)
                · have hsame := localCheck_upd_other hs i j (fun f => { f with inc := false }) hji hdep
                  rw [hsame, get_upd_other ch i j _ (Ne.symm hji)] at hbad
                  rcases hw j hi hbad with ⟨hm, hns⟩ | hr
                  · rcases List.mem_cons.mp hm with rfl | hm
                    · exact absurd rfl hji
                    · refine Or.inl ⟨hm, ?_⟩
                      intro hmem
                      rcases List.mem_cons.mp hmem with rfl | hmem
                      · exact hji rfl
                      · exact hns hmem
                  · exact Or.inr (List.mem_append_left _ hr)
            · -- not included: nothing to do
              rename_i hinc
              refine checkPass_W b todo ch _ _ ch' redo' h hs ?_
              intro j hi hbad
              rcases hw j hi hbad with ⟨hm, hns⟩ | hr
              · rcases List.mem_cons.mp hm with rfl | hm
                · exact absurd hi hinc
                · refine Or.inl ⟨hm, ?_⟩
                  intro hmem
                  rcases List.mem_cons.mp hmem with rfl | hmem
                  · exact hinc hi
                  · exact hns hmem
              · exact Or.inr hr
      · rename_i hcannot
        split at h
        · -- passes its check now
          rename_i hok
          refine checkPass_W b todo ch _ _ ch' redo' h hs ?_
          intro j hi hbad
          rcases hw j hi hbad with ⟨hm, hns⟩ | hr
          · rcases List.mem_cons.mp hm with rfl | hm
            · rcases hbad with hc | hl
              · exact absurd hc hcannot
              · rw [hok] at hl; cases hl
            · refine Or.inl ⟨hm, ?_⟩
              intro hmem
              rcases List.mem_cons.mp hmem with rfl | hmem
              · rcases hbad with hc | hl
                · exact hcannot hc
                · rw [hok] at hl; cases hl
              · exact hns hmem
          · exact Or.inr hr
        · -- fails: marked impossible, looked at again in the next pass
          refine checkPass_W b todo _ _ _ ch' redo' h (Sym_upd hs i _ rfl) ?_
          intro j hi hbad
          by_cases hji : j = i
          · subst hji; exact Or.inr (List.mem_append_right _ (by simp))
          · rw [get_upd_other ch i j _ (Ne.symm hji)] at hi
            have hsame := localCheck_upd_sameInc (ch := ch) i j (fun f => { f with cannot := true }) rfl rfl
            rw [hsame, get_upd_other ch i j _ (Ne.symm hji)] at hbad
            rcases hw j hi hbad with ⟨hm, hns⟩ | hr
            · rcases List.mem_cons.mp hm with rfl | hm
              · exact absurd rfl hji
              · refine Or.inl ⟨hm, ?_⟩
                intro hmem
                rcases List.mem_cons.mp hmem with rfl | hmem
                · exact hji rfl
                · exact hns hmem
            · exact Or.inr (List.mem_append_left _ hr)

/-- what `checkFlows` accepts is a fixpoint -/
def Fix (ch : Chain) : Prop :=
  ∀ j, (ch.get j).inc = true → (ch.get j).cannot = false ∧ localCheck ch (ch.get j) = true

theorem checkFlows_fix (b : Bool) : ∀ (fuel : Nat) (todo : List Nat) (ch ch' : Chain),
    checkFlows b fuel todo ch = .ok ch' → Sym ch → W ch todo [] [] → Sym ch' ∧ Fix ch'
  | 0, _, _, _, h, _, _ => by simp [checkFlows] at h
  | fuel + 1, todo, ch, ch', h, hs, hw => by
    simp only [checkFlows] at h
    split at h
    · rename_i hempty
      cases h
      refine ⟨hs, ?_⟩
      intro j hi
      have htodo : todo = [] := by simpa using hempty
      subst htodo
      constructor
      · cases hc : (ch.get j).cannot with
        | false => rfl
        | true =>
          rcases hw j hi (Or.inl hc) with ⟨hm, _⟩ | hr
          · cases hm
          · cases hr
      · cases hl : localCheck ch (ch.get j) with
        | true => rfl
        | false =>
          rcases hw j hi (Or.inr hl) with ⟨hm, _⟩ | hr
          · cases hm
          · cases hr
    · split at h
      · cases h
      · rename_i ch1 redo hp
        have ⟨hs1, hw1⟩ := checkPass_W b todo ch [] [] ch1 redo hp hs hw
        refine checkFlows_fix b fuel redo ch1 ch' h hs1 ?_
        intro j hi hbad
        rcases hw1 j hi hbad with ⟨hm, _⟩ | hr
        · cases hm
        · exact Or.inl ⟨hr, by simp⟩

theorem markAll_W : ∀ (todo : List Nat) (ch : Chain) (rem : List Nat) (ch' : Chain) (rem' : List Nat),
    markAll todo ch rem = .ok (ch', rem') → Sym ch → (∀ j, j ∉ todo → (ch.get j).inc = true → j ∈ rem) →
      Sym ch' ∧ ∀ j, (ch'.get j).inc = true → j ∈ rem'
  | [], ch, rem, ch', rem', h, hs, hinv => by
    simp only [markAll] at h; cases h; exact ⟨hs, fun j hi => hinv j (by simp) hi⟩
  | i :: rest, ch, rem, ch', rem', h, hs, hinv => by
    simp only [markAll] at h
    split at h
    · refine markAll_W rest _ _ ch' rem' h (Sym_upd hs i _ rfl) ?_
      intro j hj hi
      by_cases hji : j = i
      · subst hji; exact List.mem_append_right _ (by simp)
      · rw [get_upd_other ch i j _ (Ne.symm hji)] at hi
        exact List.mem_append_left _ (hinv j (by simp [hji, hj]) hi)
    · split at h
      · cases h
      · refine markAll_W rest _ _ ch' rem' h (Sym_upd hs i _ rfl) ?_
        intro j hj hi
        by_cases hji : j = i
        · subst hji
          by_cases hlt : j < ch.length
          · rw [get_upd_same ch j _ hlt] at hi; simp at hi
          · rw [get_upd_oob ch j _ hlt, get_default_of_ge ch j hlt] at hi; cases hi
        · rw [get_upd_other ch i j _ (Ne.symm hji)] at hi
          exact hinv j (by simp [hji, hj]) hi

/-- **the final validation is a fixpoint**: in the chain `validate` accepts, every included provider
    passes `localCheck` against the final include flags -/
theorem validate_fix (b : Bool) (ch ch' : Chain) (h : validate b ch = .ok ch') (hs : Sym ch) : Sym ch' ∧ Fix ch' := by
  unfold validate at h
  split at h
  · cases h
  · rename_i ch1 rem hm
    have ⟨hs1, hrem⟩ := markAll_W _ ch [] ch1 rem hm hs (by
      intro j hj hi
      have : ¬ j < ch.length := by simpa using hj
      rw [get_default_of_ge ch j this] at hi; cases hi)
    refine checkFlows_fix b _ rem ch1 ch' h hs1 ?_
    intro j hi _
    exact Or.inl ⟨hrem j hi, by simp⟩

end Nject

namespace Nject

/-! ### validation only changes the two flags -/

/-- `ch'` is `ch` with other include / impossible flags -/
def FR (ch ch' : Chain) : Prop := ch'.length = ch.length ∧ ∀ j, flagsOnly (ch.get j) (ch'.get j)

theorem flagsOnly_trans {a b c : IP} (h1 : flagsOnly a b) (h2 : flagsOnly b c) : flagsOnly a c := by
  unfold flagsOnly at *
  rw [← h2, ← h1]

theorem FR_refl (ch : Chain) : FR ch ch := ⟨rfl, fun _ => rfl⟩

theorem FR_trans {a b c : Chain} (h1 : FR a b) (h2 : FR b c) : FR a c :=
  ⟨h2.1.trans h1.1, fun j => flagsOnly_trans (h1.2 j) (h2.2 j)⟩

theorem FR_upd (ch : Chain) (i : Nat) (g : IP → IP) (hg : flagsOnly (ch.get i) (g (ch.get i))) : FR ch (ch.upd i g) := by
  refine ⟨upd_length ch i g, fun j => ?_⟩
  by_cases hlt : i < ch.length
  · by_cases hji : j = i
    · subst hji; rw [get_upd_same ch j g hlt]; exact hg
    · rw [get_upd_other ch i j g (Ne.symm hji)]; rfl
  · rw [get_upd_oob ch i g hlt]; rfl

theorem markAll_FR : ∀ (todo : List Nat) (ch : Chain) (rem : List Nat) (ch' : Chain) (rem' : List Nat),
    markAll todo ch rem = .ok (ch', rem') → FR ch ch'
  | [], ch, rem, ch', rem', h => by simp only [markAll] at h; cases h; exact FR_refl ch
  | i :: rest, ch, rem, ch', rem', h => by
    simp only [markAll] at h
    split at h
    · exact FR_trans (FR_upd ch i (fun f => { f with inc := true, cannot := false }) rfl) (markAll_FR rest _ _ ch' rem' h)
    · split at h
      · cases h
      · exact FR_trans (FR_upd ch i (fun f => { f with cannot := true, inc := false }) rfl) (markAll_FR rest _ _ ch' rem' h)

theorem checkPass_FR (b : Bool) : ∀ (todo : List Nat) (ch : Chain) (seen redo : List Nat) (ch' : Chain) (redo' : List Nat),
    checkPass b todo ch seen redo = .ok (ch', redo') → FR ch ch'
  | [], ch, seen, redo, ch', redo', h => by simp only [checkPass] at h; cases h; exact FR_refl ch
  | i :: todo, ch, seen, redo, ch', redo', h => by
    simp only [checkPass] at h
    split at h
    · exact checkPass_FR b todo ch seen redo ch' redo' h
    · split at h
      · split at h
        · cases h
        · split at h
          · cases h
          · split at h
            · exact FR_trans (FR_upd ch i (fun f => { f with inc := false }) rfl) (checkPass_FR b todo _ _ _ ch' redo' h)
            · exact checkPass_FR b todo ch _ _ ch' redo' h
      · split at h
        · exact checkPass_FR b todo ch _ _ ch' redo' h
        · exact FR_trans (FR_upd ch i (fun f => { f with cannot := true }) rfl) (checkPass_FR b todo _ _ _ ch' redo' h)

theorem checkFlows_FR (b : Bool) : ∀ (fuel : Nat) (todo : List Nat) (ch ch' : Chain),
    checkFlows b fuel todo ch = .ok ch' → FR ch ch'
  | 0, _, _, _, h => by simp [checkFlows] at h
  | fuel + 1, todo, ch, ch', h => by
    simp only [checkFlows] at h
    split at h
    · cases h; exact FR_refl ch
    · split at h
      · cases h
      · rename_i ch1 redo hp
        exact FR_trans (checkPass_FR b todo ch [] [] ch1 redo hp) (checkFlows_FR b fuel redo ch1 ch' h)

theorem validate_FR (b : Bool) (ch ch' : Chain) (h : validate b ch = .ok ch') : FR ch ch' := by
  unfold validate at h
  split at h
  · cases h
  · rename_i ch1 rem hm
    exact FR_trans (markAll_FR _ ch [] ch1 rem hm) (checkFlows_FR b _ rem ch1 ch' h)

end Nject
