import NjectProofs.ReorderDeps
/-
  Liveness of `topo.run` (reorder.go): under an order condition on the constraint graph, every fixed
  provider is processed with its constraints met ("release"), and a Reorder'd provider whose own
  constraints are met by the fixed providers before position `kx` is emitted BEFORE the fixed provider
  at position `kx`.

  The argument is about the moments at which the loop takes the next fixed provider: both heaps are
  empty then, so every node that was ever queued has been processed.
-/
namespace Nject

/-! ### `before` / `after` are two views of the strong pairs -/

theorem buildNodes_dual_fold : ∀ (l : List (Nat × Nat)) (ns : Nodes) (S : List (Nat × Nat)),
    (∀ i j, j ∈ ns.after.get i ↔ (i, j) ∈ S) → (∀ i j, i ∈ ns.before.get j ↔ (i, j) ∈ S) →
    let r := l.foldl (fun (ns : Nodes) (p : Nat × Nat) =>
      { ns with before := ns.before.set p.2 (setIns (ns.before.get p.2) p.1),
                after := ns.after.set p.1 (setIns (ns.after.get p.1) p.2) }) ns
    (∀ i j, j ∈ r.after.get i ↔ ((i, j) ∈ S ∨ (i, j) ∈ l)) ∧ (∀ i j, i ∈ r.before.get j ↔ ((i, j) ∈ S ∨ (i, j) ∈ l))
  | [], ns, S, ha, hb => by
    simp only [List.foldl_nil]
    exact ⟨fun i j => by simp [ha i j], fun i j => by simp [hb i j]⟩
  | q :: l, ns, S, ha, hb => by
    simp only [List.foldl_cons]
    let ns1 : Nodes := { ns with before := ns.before.set q.2 (setIns (ns.before.get q.2) q.1),
                                 after := ns.after.set q.1 (setIns (ns.after.get q.1) q.2) }
    have ha1 : ∀ i j, j ∈ ns1.after.get i ↔ (i, j) ∈ S ++ [q] := by
      intro i j
      show j ∈ (ns.after.set q.1 (setIns (ns.after.get q.1) q.2)).get i ↔ _
      rw [NMap.get_set]
      by_cases hi : i = q.1
      · simp only [hi, if_true, mem_setIns, List.mem_append, List.mem_singleton]
        rw [ha q.1 j]
        constructor
        · rintro (h | h)
          · exact Or.inl h
          · right; rw [h]
        · rintro (h | h)
          · exact Or.inl h
          · right; rw [← h]
      · simp only [hi, if_false, List.mem_append, List.mem_singleton]
        rw [ha i j]
        constructor
        · exact Or.inl
        · rintro (h | h)
          · exact h
          · exact (hi (by rw [← h])).elim
    have hb1 : ∀ i j, i ∈ ns1.before.get j ↔ (i, j) ∈ S ++ [q] := by
      intro i j
      show i ∈ (ns.before.set q.2 (setIns (ns.before.get q.2) q.1)).get j ↔ _
      rw [NMap.get_set]
      by_cases hj : j = q.2
      · simp only [hj, if_true, mem_setIns, List.mem_append, List.mem_singleton]
        rw [hb i q.2]
        constructor
        · rintro (h | h)
          · exact Or.inl h
          · right; rw [h]
        · rintro (h | h)
          · exact Or.inl h
          · right; rw [← h]
      · simp only [hj, if_false, List.mem_append, List.mem_singleton]
        rw [hb i j]
        constructor
        · exact Or.inl
        · rintro (h | h)
          · exact h
          · exact (hj (by rw [← h])).elim
    have ⟨r1, r2⟩ := buildNodes_dual_fold l ns1 (S ++ [q]) ha1 hb1
    refine ⟨fun i j => ?_, fun i j => ?_⟩
    · rw [r1 i j, List.mem_append, List.mem_singleton, List.mem_cons, or_assoc]
    · rw [r2 i j, List.mem_append, List.mem_singleton, List.mem_cons, or_assoc]

/-- `j ∈ after(i)` iff `i ∈ before(j)` iff `(i, j)` is a strong pair -/
theorem buildNodes_dual (g : RGraph) :
    (∀ i j, j ∈ (buildNodes g).after.get i ↔ (i, j) ∈ g.strong) ∧ (∀ i j, i ∈ (buildNodes g).before.get j ↔ (i, j) ∈ g.strong) := by
  unfold buildNodes
  have ⟨r1, r2⟩ := buildNodes_dual_fold g.strong {} [] (fun i j => by simp [NMap.get_nil]) (fun i j => by simp [NMap.get_nil])
  have k2 := foldl_keeps (fun (ns : Nodes) (p : Nat × Nat) =>
    { ns with weakBefore := ns.weakBefore.set p.2 (setIns (ns.weakBefore.get p.2) p.1),
              weakAfter := ns.weakAfter.set p.1 (setIns (ns.weakAfter.get p.1) p.2) }) (fun _ _ => rfl) (fun _ _ => rfl) g.weak
  have k3 := foldl_keeps (fun (ns : Nodes) (p : Nat × Nat) =>
    if !(ns.weakBefore.get p.1).contains p.2 then ns else
    let wb := ns.weakBefore.set p.2 (setDel (ns.weakBefore.get p.2) p.1)
    let wb := wb.set p.1 (setDel (wb.get p.1) p.1)
    let wa := ns.weakAfter.set p.1 (setDel (ns.weakAfter.get p.1) p.2)
    let wa := wa.set p.2 (setDel (wa.get p.2) p.2)
    { ns with weakBefore := wb, weakAfter := wa })
    (fun ns a => by dsimp only; split <;> rfl) (fun ns a => by dsimp only; split <;> rfl) g.weak
  simp only []
  constructor
  · intro i j
    rw [(k3 _).2, (k2 _).2, r1 i j]; simp
  · intro i j
    rw [(k3 _).1, (k2 _).1, r2 i j]; simp

end Nject

namespace Nject

/-! ### the liveness invariant -/

def inHeap (x : Topo) (m : Nat) : Prop := ∃ e, (e ∈ x.unblocked ∨ e ∈ x.weakBlocked) ∧ e.2 = m

/-- `pend`: the node being processed right now (taken off its queue, not yet through `processOne`) -/
structure Live (s : TopoS) (after0 : NMap) (initT : Nat → Prop) (pend : Nat → Prop) (x : Topo) : Prop where
  sub : ∀ i j, j ∈ x.after.get i → j ∈ after0.get i
  gone : ∀ m ∈ x.done, ¬ pend m → ∀ n' ∈ s.before.get m, m ∉ x.after.get n'
  relTy : ∀ q ∈ x.done, ¬ pend q → q < s.n → ∀ num, Releases s q num → inHeap x num ∨ num ∈ x.done ∨ pend num
  initTy : ∀ num, initT num → inHeap x num ∨ num ∈ x.done ∨ pend num
  ready : ∀ i, i < s.n → after0.get i ≠ [] → x.after.get i = [] → inHeap x i ∨ i ∈ x.done ∨ pend i

/-- what `release` and the folds over it do to the rest of the state: `out`, `done` untouched, `after` sets
    only shrink, queue entries stay -/
structure Frame2 (x x' : Topo) : Prop where
  out : x'.out = x.out
  done : x'.done = x.done
  cr : x'.cannotReorder = x.cannotReorder
  aft : ∀ a b, b ∈ x'.after.get a → b ∈ x.after.get a
  heap : ∀ m, inHeap x m → inHeap x' m

theorem Frame2.refl (x : Topo) : Frame2 x x := ⟨rfl, rfl, rfl, fun _ _ h => h, fun _ h => h⟩
theorem Frame2.trans {x y z : Topo} (h1 : Frame2 x y) (h2 : Frame2 y z) : Frame2 x z :=
  ⟨h2.out.trans h1.out, h2.done.trans h1.done, h2.cr.trans h1.cr, fun a b h => h1.aft a b (h2.aft a b h), fun m h => h2.heap m (h1.heap m h)⟩

theorem inHeap_pushU (s : TopoS) (x : Topo) (n' m : Nat) : inHeap (x.pushU s n') m ↔ inHeap x m ∨ m = n' := by
  unfold inHeap Topo.pushU
  constructor
  · rintro ⟨e, he, hm⟩
    rcases he with he | he
    · rcases List.mem_cons.mp he with rfl | he
      · exact Or.inr hm.symm
      · exact Or.inl ⟨e, Or.inl he, hm⟩
    · exact Or.inl ⟨e, Or.inr he, hm⟩
  · rintro (⟨e, he, hm⟩ | hm)
    · exact ⟨e, he.elim (fun h => Or.inl (List.mem_cons_of_mem _ h)) Or.inr, hm⟩
    · exact ⟨(prio s.n s.isReorder n', n'), Or.inl (by simp), hm.symm⟩

theorem inHeap_pushW (s : TopoS) (x : Topo) (n' m : Nat) : inHeap (x.pushW s n') m ↔ inHeap x m ∨ m = n' := by
  unfold inHeap Topo.pushW
  constructor
  · rintro ⟨e, he, hm⟩
    rcases he with he | he
    · exact Or.inl ⟨e, Or.inl he, hm⟩
    · rcases List.mem_cons.mp he with rfl | he
      · exact Or.inr hm.symm
      · exact Or.inl ⟨e, Or.inr he, hm⟩
  · rintro (⟨e, he, hm⟩ | hm)
    · exact ⟨e, he.elim Or.inl (fun h => Or.inr (List.mem_cons_of_mem _ h)), hm⟩
    · exact ⟨(prio s.n s.isReorder n', n'), Or.inr (by simp), hm.symm⟩

/-- a push keeps the invariant -/
theorem Live.push {s after0 initT pend x} (h : Live s after0 initT pend x) (n' : Nat) (weak : Bool) :
    Live s after0 initT pend (if weak then x.pushW s n' else x.pushU s n') := by
  have hh : ∀ m, inHeap x m → inHeap (if weak then x.pushW s n' else x.pushU s n') m := by
    intro m hm
    cases weak with
    | false => simp only [Bool.false_eq_true, if_false]; exact (inHeap_pushU s x n' m).mpr (Or.inl hm)
    | true => simp only [if_true]; exact (inHeap_pushW s x n' m).mpr (Or.inl hm)
  have hsame : (if weak then x.pushW s n' else x.pushU s n').after = x.after ∧ (if weak then x.pushW s n' else x.pushU s n').done = x.done := by
    cases weak <;> exact ⟨rfl, rfl⟩
  refine ⟨?_, ?_, ?_, ?_, ?_⟩
  · rw [hsame.1]; exact h.sub
  · rw [hsame.1, hsame.2]; exact h.gone
  · intro q hq hp hlt num hr
    rw [hsame.2] at hq ⊢
    rcases h.relTy q hq hp hlt num hr with a | a | a
    · exact Or.inl (hh num a)
    · exact Or.inr (Or.inl a)
    · exact Or.inr (Or.inr a)
  · intro num hi
    rw [hsame.2]
    rcases h.initTy num hi with a | a | a
    · exact Or.inl (hh num a)
    · exact Or.inr (Or.inl a)
    · exact Or.inr (Or.inr a)
  · intro i hi h0 he
    rw [hsame.1] at he
    rw [hsame.2]
    rcases h.ready i hi h0 he with a | a | a
    · exact Or.inl (hh i a)
    · exact Or.inr (Or.inl a)
    · exact Or.inr (Or.inr a)

theorem release_live {s after0 initT pend x} (h : Live s after0 initT pend x) (n' i : Nat) :
    Live s after0 initT pend (x.release s n' i) ∧ Frame2 x (x.release s n' i) ∧
    (n' ≥ s.n → inHeap (x.release s n' i) n') ∧ (n' < s.n → i ∉ (x.release s n' i).after.get n') := by
  unfold Topo.release
  by_cases hge : n' ≥ s.n
  · rw [if_pos hge]
    have := h.push n' false
    simp only [Bool.false_eq_true, if_false] at this
    refine ⟨this, ⟨rfl, rfl, rfl, fun _ _ hb => hb, fun m hm => (inHeap_pushU s x n' m).mpr (Or.inl hm)⟩,
      fun _ => (inHeap_pushU s x n' n').mpr (Or.inr rfl), fun hlt => by omega⟩
  · rw [if_neg hge]
    let x1 : Topo := { x with after := x.after.set n' (setDel (x.after.get n') i), weakAfter := x.weakAfter.set n' (setDel (x.weakAfter.get n') i) }
    have haft : ∀ a b, b ∈ x1.after.get a → b ∈ x.after.get a := by
      intro a b hb
      have hb' : b ∈ (x.after.set n' (setDel (x.after.get n') i)).get a := hb
      rw [NMap.get_set] at hb'
      by_cases ha : a = n'
      · simp only [ha, if_true] at hb'; rw [ha]; exact (mem_setDel.mp hb').1
      · simp only [ha, if_false] at hb'; exact hb'
    have hni : i ∉ x1.after.get n' := by
      show i ∉ (x.after.set n' (setDel (x.after.get n') i)).get n'
      rw [NMap.get_set]; simp only [if_true]
      intro hc; exact (mem_setDel.mp hc).2 rfl
    have hheap1 : ∀ m, inHeap x m → inHeap x1 m := fun m hm => hm
    -- x1 satisfies everything except `ready` for n'
    have l1 : ∀ i', i' ≠ n' → i' < s.n → after0.get i' ≠ [] → x1.after.get i' = [] → inHeap x1 i' ∨ i' ∈ x1.done ∨ pend i' := by
      intro i' hne hi' h0 he
      have : x1.after.get i' = x.after.get i' := by
        show (x.after.set n' (setDel (x.after.get n') i)).get i' = _
        rw [NMap.get_set]; simp [hne]
      rw [this] at he
      exact h.ready i' hi' h0 he
    have base : ∀ y : Topo, y.after = x1.after → y.done = x1.done → (∀ m, inHeap x1 m → inHeap y m) →
        ((x1.after.get n' = [] → inHeap y n') → Live s after0 initT pend y) := by
      intro y ha hd hh hn
      refine ⟨?_, ?_, ?_, ?_, ?_⟩
      · intro a b hb; rw [ha] at hb; exact h.sub a b (haft a b hb)
      · intro m hm hp n'' hn'' hc
        rw [ha] at hc; rw [hd] at hm
        exact h.gone m hm hp n'' hn'' (haft n'' m hc)
      · intro q hq hp hlt num hr
        rw [hd] at hq ⊢
        rcases h.relTy q hq hp hlt num hr with a | a | a
        · exact Or.inl (hh num a)
        · exact Or.inr (Or.inl a)
        · exact Or.inr (Or.inr a)
      · intro num hi
        rw [hd]
        rcases h.initTy num hi with a | a | a
        · exact Or.inl (hh num a)
        · exact Or.inr (Or.inl a)
        · exact Or.inr (Or.inr a)
      · intro i' hi' h0 he
        rw [ha] at he; rw [hd]
        by_cases hne : i' = n'
        · subst hne; exact Or.inl (hn he)
        · rcases l1 i' hne hi' h0 he with a | a | a
          · exact Or.inl (hh i' a)
          · exact Or.inr (Or.inl a)
          · exact Or.inr (Or.inr a)
    show Live s after0 initT pend (if (x1.after.get n').isEmpty then (if (x1.weakAfter.get n').isEmpty then x1.pushU s n' else x1.pushW s n') else x1) ∧
      Frame2 x (if (x1.after.get n').isEmpty then (if (x1.weakAfter.get n').isEmpty then x1.pushU s n' else x1.pushW s n') else x1) ∧
      (n' ≥ s.n → inHeap (if (x1.after.get n').isEmpty then (if (x1.weakAfter.get n').isEmpty then x1.pushU s n' else x1.pushW s n') else x1) n') ∧
      (n' < s.n → i ∉ (if (x1.after.get n').isEmpty then (if (x1.weakAfter.get n').isEmpty then x1.pushU s n' else x1.pushW s n') else x1).after.get n')
    by_cases hemp : (x1.after.get n').isEmpty
    · simp only [hemp, if_true]
      by_cases hw : (x1.weakAfter.get n').isEmpty
      · simp only [hw, if_true]
        refine ⟨base (x1.pushU s n') rfl rfl (fun m hm => (inHeap_pushU s x1 n' m).mpr (Or.inl hm)) (fun _ => (inHeap_pushU s x1 n' n').mpr (Or.inr rfl)),
          ⟨rfl, rfl, rfl, haft, fun m hm => (inHeap_pushU s x1 n' m).mpr (Or.inl (hheap1 m hm))⟩, fun hc => (hge hc).elim, fun _ => hni⟩
      · simp only [hw, if_false]
        refine ⟨base (x1.pushW s n') rfl rfl (fun m hm => (inHeap_pushW s x1 n' m).mpr (Or.inl hm)) (fun _ => (inHeap_pushW s x1 n' n').mpr (Or.inr rfl)),
          ⟨rfl, rfl, rfl, haft, fun m hm => (inHeap_pushW s x1 n' m).mpr (Or.inl (hheap1 m hm))⟩, fun hc => (hge hc).elim, fun _ => hni⟩
    · simp only [hemp, if_false]
      refine ⟨base x1 rfl rfl (fun m hm => hm) (fun he => by rw [he] at hemp; simp at hemp), ⟨rfl, rfl, rfl, haft, hheap1⟩, fun hc => (hge hc).elim, fun _ => hni⟩

end Nject

namespace Nject

theorem Live.congr {s after0 initT pend x} (h : Live s after0 initT pend x) {x' : Topo}
    (hafter : x'.after = x.after) (hdone : x'.done = x.done) (hu : x'.unblocked = x.unblocked) (hw : x'.weakBlocked = x.weakBlocked) :
    Live s after0 initT pend x' := by
  have hh : ∀ m, inHeap x' m ↔ inHeap x m := by
    intro m; unfold inHeap; rw [hu, hw]
  exact
    { sub := by rw [hafter]; exact h.sub
      gone := by rw [hafter, hdone]; exact h.gone
      relTy := fun q hq hp hlt num hr => by
        rw [hdone] at hq ⊢; rw [hh]; exact h.relTy q hq hp hlt num hr
      initTy := fun num hi => by rw [hdone, hh]; exact h.initTy num hi
      ready := fun i hi h0 he => by rw [hafter] at he; rw [hdone, hh]; exact h.ready i hi h0 he }

theorem foldl_release_live {s after0 initT pend} (i : Nat) :
    ∀ (l : List Nat) (x : Topo), (∀ n' ∈ l, n' < s.n) → Live s after0 initT pend x →
      Live s after0 initT pend (l.foldl (fun x n' => x.release s n' i) x) ∧
      Frame2 x (l.foldl (fun x n' => x.release s n' i) x) ∧
      ∀ n' ∈ l, i ∉ (l.foldl (fun x n' => x.release s n' i) x).after.get n'
  | [], x, _, h => ⟨h, Frame2.refl x, fun _ hn => by cases hn⟩
  | n' :: l, x, hl, h => by
    simp only [List.foldl_cons]
    have ⟨h1, f1, _, g1⟩ := release_live h n' i
    have ⟨h2, f2, g2⟩ := foldl_release_live i l _ (fun a ha => hl a (by simp [ha])) h1
    refine ⟨h2, f1.trans f2, fun a ha => ?_⟩
    rcases List.mem_cons.mp ha with rfl | ha
    · exact fun hc => g1 (hl a (by simp)) (f2.aft a i hc)
    · exact g2 a ha

theorem releaseNode_live {s NR after0 initT pend x} (hs : SOK s NR) (h : Live s after0 initT pend x) (i : Nat) :
    Live s after0 initT pend (x.releaseNode s i) ∧ Frame2 x (x.releaseNode s i) ∧
    ∀ n' ∈ s.before.get i, i ∉ (x.releaseNode s i).after.get n' := by
  unfold Topo.releaseNode
  have hfold : ∀ (l : List Nat) (y : Topo), Live s after0 initT pend y →
      Live s after0 initT pend (l.foldl (fun (x : Topo) n => { x with weakAfter := x.weakAfter.set n (setDel (x.weakAfter.get n) i) }) y) ∧
      Frame2 y (l.foldl (fun (x : Topo) n => { x with weakAfter := x.weakAfter.set n (setDel (x.weakAfter.get n) i) }) y) := by
    intro l
    induction l with
    | nil => intro y hy; exact ⟨hy, Frame2.refl y⟩
    | cons a l ih =>
      intro y hy
      simp only [List.foldl_cons]
      have hy' : Live s after0 initT pend { y with weakAfter := y.weakAfter.set a (setDel (y.weakAfter.get a) i) } :=
        hy.congr rfl rfl rfl rfl
      have ⟨c, f⟩ := ih _ hy'
      exact ⟨c, ⟨f.out, f.done, f.cr, f.aft, fun m hm => f.heap m hm⟩⟩
  have ⟨c1, f1⟩ := hfold (s.weakBefore.get i) x h
  have ⟨c2, f2, g2⟩ := foldl_release_live i (s.before.get i) _ (fun n' hn' => hs.beforeLt i n' hn') c1
  exact ⟨c2, f1.trans f2, g2⟩

theorem foldl_releaseTy_live {s after0 initT pend} (i : Nat) (tbl : List (Ty × Nat)) (htbl : ∀ t num, tbl.lookup t = some num → s.n < num) :
    ∀ (l : List Ty) (x : Topo), Live s after0 initT pend x →
      Live s after0 initT pend (l.foldl (fun x t => match tbl.lookup t with | some num => x.release s num i | none => x) x) ∧
      Frame2 x (l.foldl (fun x t => match tbl.lookup t with | some num => x.release s num i | none => x) x) ∧
      ∀ t ∈ l, ∀ num, tbl.lookup t = some num →
        inHeap (l.foldl (fun x t => match tbl.lookup t with | some num => x.release s num i | none => x) x) num
  | [], x, h => ⟨h, Frame2.refl x, fun _ ht => by cases ht⟩
  | t :: l, x, h => by
    simp only [List.foldl_cons]
    cases hlk : tbl.lookup t with
    | none =>
      simp only []
      have ⟨a, b, c⟩ := foldl_releaseTy_live i tbl htbl l x h
      refine ⟨a, b, fun t' ht' num hn => ?_⟩
      rcases List.mem_cons.mp ht' with rfl | ht'
      · rw [hlk] at hn; cases hn
      · exact c t' ht' num hn
    | some num0 =>
      simp only []
      have ⟨h1, f1, p1, _⟩ := release_live h num0 i
      have ⟨a, b, c⟩ := foldl_releaseTy_live i tbl htbl l _ h1
      refine ⟨a, f1.trans b, fun t' ht' num hn => ?_⟩
      rcases List.mem_cons.mp ht' with rfl | ht'
      · rw [hlk] at hn; cases hn
        exact b.heap num0 (p1 (Nat.le_of_lt (htbl _ num0 hlk)))
      · exact c t' ht' num hn

theorem releaseProvider_live {s NR after0 initT pend x} (hs : SOK s NR) (h : Live s after0 initT pend x) (i : Nat) :
    Live s after0 initT pend (x.releaseProvider s i) ∧ Frame2 x (x.releaseProvider s i) ∧
    ∀ num, Releases s i num → inHeap (x.releaseProvider s i) num := by
  unfold Topo.releaseProvider
  have ⟨c1, f1, g1⟩ := foldl_releaseTy_live (s := s) (after0 := after0) (initT := initT) (pend := pend) i s.downTypes hs.downGt (s.outOf i) x h
  have ⟨c2, f2, g2⟩ := foldl_releaseTy_live (s := s) (after0 := after0) (initT := initT) (pend := pend) i s.upTypes hs.upGt (s.recvOf i) _ c1
  refine ⟨c2, f1.trans f2, fun num hr => ?_⟩
  rcases hr with ⟨t, ht, hl⟩ | ⟨t, ht, hl⟩
  · exact f2.heap num (g1 t ht num hl)
  · exact g2 t ht num hl

end Nject

namespace Nject

theorem Live.markDone {s after0 initT x} {i : Nat} (h : Live s after0 initT (· = i) x) {y : Topo}
    (hafter : y.after = x.after) (hdone : y.done = i :: x.done) (hu : y.unblocked = x.unblocked) (hw : y.weakBlocked = x.weakBlocked) :
    Live s after0 initT (· = i) y := by
  have hh : ∀ m, inHeap y m ↔ inHeap x m := by
    intro m; unfold inHeap; rw [hu, hw]
  refine ⟨?_, ?_, ?_, ?_, ?_⟩
  · rw [hafter]; exact h.sub
  · intro m hm hp n' hn'
    rw [hafter]; rw [hdone] at hm
    rcases List.mem_cons.mp hm with rfl | hm
    · exact (hp rfl).elim
    · exact h.gone m hm hp n' hn'
  · intro q hq hp hlt num hr
    rw [hdone] at hq
    rcases List.mem_cons.mp hq with rfl | hq
    · exact (hp rfl).elim
    · rw [hh, hdone]
      rcases h.relTy q hq hp hlt num hr with a | a | a
      · exact Or.inl a
      · exact Or.inr (Or.inl (List.mem_cons_of_mem _ a))
      · exact Or.inr (Or.inr a)
  · intro num hi
    rw [hh, hdone]
    rcases h.initTy num hi with a | a | a
    · exact Or.inl a
    · exact Or.inr (Or.inl (List.mem_cons_of_mem _ a))
    · exact Or.inr (Or.inr a)
  · intro j hj h0 he
    rw [hafter] at he
    rw [hh, hdone]
    rcases h.ready j hj h0 he with a | a | a
    · exact Or.inl a
    · exact Or.inr (Or.inl (List.mem_cons_of_mem _ a))
    · exact Or.inr (Or.inr a)

theorem Live.finish {s after0 initT y} {i : Nat} (h : Live s after0 initT (· = i) y) (hid : i ∈ y.done)
    (hg : ∀ n' ∈ s.before.get i, i ∉ y.after.get n')
    (hr : i < s.n → ∀ num, Releases s i num → inHeap y num ∨ num ∈ y.done) :
    Live s after0 initT (fun _ => False) y := by
  refine ⟨h.sub, ?_, ?_, ?_, ?_⟩
  · intro m hm _ n' hn'
    by_cases hmi : m = i
    · subst hmi; exact hg n' hn'
    · exact h.gone m hm hmi n' hn'
  · intro q hq _ hlt num hrel
    by_cases hqi : q = i
    · subst hqi
      rcases hr hlt num hrel with a | a
      · exact Or.inl a
      · exact Or.inr (Or.inl a)
    · rcases h.relTy q hq hqi hlt num hrel with a | a | a
      · exact Or.inl a
      · exact Or.inr (Or.inl a)
      · exact Or.inr (Or.inl (a ▸ hid))
  · intro num hi
    rcases h.initTy num hi with a | a | a
    · exact Or.inl a
    · exact Or.inr (Or.inl a)
    · exact Or.inr (Or.inl (a ▸ hid))
  · intro j hj h0 he
    rcases h.ready j hj h0 he with a | a | a
    · exact Or.inl a
    · exact Or.inr (Or.inl a)
    · exact Or.inr (Or.inl (a ▸ hid))

/-- one node taken off a queue and processed with `release = true` -/
theorem processOne_live {s NR after0 initT x} {i : Nat} (hs : SOK s NR) (h : Live s after0 initT (· = i) x)
    (hnd : i ∉ x.done) (hne : i ≠ s.n) :
    Live s after0 initT (fun _ => False) (x.processOne s i true) := by
  unfold Topo.processOne
  have hd : x.done.contains i = false := by simpa using hnd
  simp only [hd, Bool.false_eq_true, if_false, if_true, Bool.not_true]
  by_cases hgt : i > s.n
  · simp only [hgt, if_true]
    let x1 : Topo := { x with done := i :: x.done }
    have l1 : Live s after0 initT (· = i) x1 := h.markDone rfl rfl rfl rfl
    have ⟨l2, f2, g2⟩ := releaseNode_live hs l1 i
    have hid : i ∈ (x1.releaseNode s i).done := by rw [f2.done]; simp [x1]
    exact l2.finish hid g2 (fun hlt => by omega)
  · simp only [hgt, if_false]
    have hlt : i < s.n := by omega
    let x2 : Topo := { x with done := i :: x.done, out := x.out ++ [i] }
    have l1 : Live s after0 initT (· = i) x2 := h.markDone rfl rfl rfl rfl
    have ⟨l2, f2, g2⟩ := releaseNode_live hs l1 i
    have ⟨l3, f3, g3⟩ := releaseProvider_live hs l2 i
    have hid : i ∈ ((x2.releaseNode s i).releaseProvider s i).done := by rw [f3.done, f2.done]; simp [x2]
    exact l3.finish hid (fun n' hn' hc => g2 n' hn' (f3.aft n' i hc)) (fun _ num hr => Or.inl (g3 num hr))

end Nject

namespace Nject

/-! ### what `processOne` does to `out` -/

theorem releaseNode_frame (s : TopoS) (x : Topo) (i : Nat) : Frame x (x.releaseNode s i) := by
  unfold Topo.releaseNode
  have hfold : ∀ (l : List Nat) (y : Topo),
      Frame y (l.foldl (fun (x : Topo) n => { x with weakAfter := x.weakAfter.set n (setDel (x.weakAfter.get n) i) }) y) := by
    intro l
    induction l with
    | nil => intro y; exact Frame.refl y
    | cons a l ih => intro y; simp only [List.foldl_cons]; exact ⟨(ih _).out, (ih _).done, (ih _).cr⟩
  have hfold2 : ∀ (l : List Nat) (y : Topo), Frame y (l.foldl (fun x n' => x.release s n' i) y) := by
    intro l
    induction l with
    | nil => intro y; exact Frame.refl y
    | cons a l ih => intro y; simp only [List.foldl_cons]; exact (release_frame s y a i).trans (ih _)
  exact (hfold _ x).trans (hfold2 _ _)

theorem releaseProvider_frame (s : TopoS) (x : Topo) (i : Nat) : Frame x (x.releaseProvider s i) := by
  unfold Topo.releaseProvider
  have hfold : ∀ (tbl : List (Ty × Nat)) (l : List Ty) (y : Topo),
      Frame y (l.foldl (fun x t => match tbl.lookup t with | some num => x.release s num i | none => x) y) := by
    intro tbl l
    induction l with
    | nil => intro y; exact Frame.refl y
    | cons a l ih =>
      intro y
      simp only [List.foldl_cons]
      cases tbl.lookup a with
      | none => exact ih y
      | some num => exact (release_frame s y num i).trans (ih _)
  exact (hfold _ _ x).trans (hfold _ _ _)

theorem processOne_out (s : TopoS) (x : Topo) (i : Nat) (rel : Bool) :
    (x.processOne s i rel).out = if x.done.contains i then x.out else if i > s.n then x.out else x.out ++ [i] := by
  unfold Topo.processOne
  by_cases hd : x.done.contains i
  · simp only [hd, if_true]
  · simp only [hd, Bool.false_eq_true, if_false]
    by_cases hgt : i > s.n
    · simp only [hgt, if_true]
      cases rel with
      | false => rfl
      | true => simp only [if_true]; exact (releaseNode_frame s _ i).out
    · simp only [hgt, if_false]
      cases rel with
      | false => simp only [Bool.not_false, if_true]; exact (releaseNode_frame s _ i).out
      | true =>
        simp only [Bool.not_true, Bool.false_eq_true, if_false]
        exact ((releaseProvider_frame s _ i).out).trans (releaseNode_frame s _ i).out

/-! ### taking an entry off a heap -/

theorem heapMin_none : ∀ {h : RHeap}, heapMin h = none → h = []
  | [], _ => rfl
  | e :: rest, hm => by
    unfold heapMin at hm
    cases hr : heapMin rest with
    | none => simp [hr] at hm
    | some m => simp only [hr] at hm; split at hm <;> cases hm

theorem heapPop_none {h : RHeap} (hp : heapPop h = none) : h = [] := by
  unfold heapPop at hp
  cases hm : heapMin h with
  | none => exact heapMin_none hm
  | some m => simp [hm] at hp

theorem heapPop_rest {h : RHeap} {i : Nat} {rest : RHeap} (hp : heapPop h = some (i, rest)) :
    ∀ e ∈ h, e ∈ rest ∨ e.2 = i := by
  unfold heapPop at hp
  cases hm : heapMin h with
  | none => simp [hm] at hp
  | some m =>
    simp only [hm, Option.some.injEq, Prod.mk.injEq] at hp
    obtain ⟨h1, h2⟩ := hp
    subst h1; subst h2
    intro e he
    by_cases hem : e = m
    · right; rw [hem]
    · left; exact (List.mem_erase_of_ne hem).mpr he

/-- the state with the popped entry removed, the popped node pending -/
theorem Live.pop {s after0 initT x} (h : Live s after0 initT (fun _ => False) x) {y : Topo} {i : Nat}
    (hafter : y.after = x.after) (hdone : y.done = x.done) (hh : ∀ m, inHeap x m → inHeap y m ∨ m = i) :
    Live s after0 initT (· = i) y := by
  refine ⟨?_, ?_, ?_, ?_, ?_⟩
  · rw [hafter]; exact h.sub
  · intro m hm _ n' hn'; rw [hafter]; rw [hdone] at hm; exact h.gone m hm (fun f => f) n' hn'
  · intro q hq _ hlt num hr
    rw [hdone] at hq ⊢
    rcases h.relTy q hq (fun f => f) hlt num hr with a | a | a
    · exact (hh num a).elim Or.inl (fun e => Or.inr (Or.inr e))
    · exact Or.inr (Or.inl a)
    · exact a.elim
  · intro num hi
    rw [hdone]
    rcases h.initTy num hi with a | a | a
    · exact (hh num a).elim Or.inl (fun e => Or.inr (Or.inr e))
    · exact Or.inr (Or.inl a)
    · exact a.elim
  · intro j hj h0 he
    rw [hafter] at he; rw [hdone]
    rcases h.ready j hj h0 he with a | a | a
    · exact (hh j a).elim Or.inl (fun e => Or.inr (Or.inr e))
    · exact Or.inr (Or.inl a)
    · exact a.elim

/-- the popped node had been processed before: nothing changes -/
theorem Live.popDone {s after0 initT x} (h : Live s after0 initT (fun _ => False) x) {y : Topo} {i : Nat}
    (hafter : y.after = x.after) (hdone : y.done = x.done) (hh : ∀ m, inHeap x m → inHeap y m ∨ m = i) (hid : i ∈ x.done) :
    Live s after0 initT (fun _ => False) y := by
  have fix : ∀ m, inHeap x m ∨ m ∈ x.done ∨ False → inHeap y m ∨ m ∈ y.done ∨ False := by
    intro m hm
    rw [hdone]
    rcases hm with a | a | a
    · exact (hh m a).elim Or.inl (fun e => Or.inr (Or.inl (e ▸ hid)))
    · exact Or.inr (Or.inl a)
    · exact a.elim
  refine ⟨?_, ?_, ?_, ?_, ?_⟩
  · rw [hafter]; exact h.sub
  · rw [hafter, hdone]; exact h.gone
  · intro q hq hp hlt num hr; rw [hdone] at hq; exact fix num (h.relTy q hq hp hlt num hr)
  · intro num hi; exact fix num (h.initTy num hi)
  · intro j hj h0 he; rw [hafter] at he; exact fix j (h.ready j hj h0 he)

end Nject

namespace Nject

/-! ### the order condition and the moments when the next fixed provider is taken -/

/-- `j` is accounted for by the fixed providers before position `m`: it is one of them, or a type node that the
    init function or one of them releases -/
def OKset (s : TopoS) (NR : List Nat) (initT : Nat → Prop) (m j : Nat) : Prop :=
  (∃ k', k' < m ∧ NR[k']? = some j) ∨
  (s.n < j ∧ (initT j ∨ ∃ k' q, k' < m ∧ NR[k']? = some q ∧ Releases s q j))

theorem OKset.mono {s NR initT m m' j} (h : OKset s NR initT m j) (hm : m ≤ m') : OKset s NR initT m' j := by
  rcases h with ⟨k', hk, hn⟩ | ⟨hj, hi | ⟨k', q, hk, hn, hr⟩⟩
  · exact Or.inl ⟨k', by omega, hn⟩
  · exact Or.inr ⟨hj, Or.inl hi⟩
  · exact Or.inr ⟨hj, Or.inr ⟨k', q, by omega, hn, hr⟩⟩

/-- the order condition: every constraint of the fixed provider at position `k` is met by the fixed providers
    before it -- or, from position `kx` on, by `xr`; the constraints of `xr` are met by the fixed providers before `kx` -/
structure LiveHyp (s : TopoS) (NR : List Nat) (after0 : NMap) (initT : Nat → Prop) (xr kx : Nat) : Prop where
  xlt : xr < s.n
  xne : after0.get xr ≠ []
  kxle : kx ≤ NR.length
  dual : ∀ i j, j ∈ after0.get i → i ∈ s.before.get j
  a1 : ∀ k p, NR[k]? = some p → ∀ j ∈ after0.get p, OKset s NR initT k j ∨ (kx ≤ k ∧ s.n < j ∧ Releases s xr j)
  a2 : ∀ j ∈ after0.get xr, OKset s NR initT kx j

/-- `p` waits for a type that only `xr` supplies -/
def Consumer (s : TopoS) (after0 : NMap) (initT : Nat → Prop) (xr p : Nat) : Prop :=
  ∃ j ∈ after0.get p, s.n < j ∧ ¬ initT j ∧ ∀ q, Releases s q j → q = xr

def Ord (s : TopoS) (after0 : NMap) (initT : Nat → Prop) (xr : Nat) (x : Topo) : Prop :=
  ∀ (b p : Nat), x.out[b]? = some p → Consumer s after0 initT xr p → ∃ a : Nat, a < b ∧ x.out[a]? = some xr

section turn
variable {s : TopoS} {NR : List Nat} {after0 : NMap} {initT : Nat → Prop} {xr kx : Nat} {x : Topo}

theorem turn_done (hs : SOK s NR) (hl : Live s after0 initT (fun _ => False) x) (f : Full s NR x)
    (hu : x.unblocked = []) (hw : x.weakBlocked = []) (m' : Nat) (hm : m' ≤ f.m) (j : Nat) (hok : OKset s NR initT m' j) :
    j ∈ x.done := by
  have noHeap : ∀ m, ¬ inHeap x m := by
    rintro m ⟨e, he, _⟩
    rw [hu, hw] at he
    rcases he with he | he <;> cases he
  rcases hok with ⟨k', hk, hn⟩ | ⟨hj, hi | ⟨k', q, hk, hn, hr⟩⟩
  · exact f.crDone k' j (by omega) hn
  · rcases hl.initTy j hi with a | a | a
    · exact (noHeap j a).elim
    · exact a
    · exact a.elim
  · have hq : q ∈ x.done := f.crDone k' q (by omega) hn
    have hqn : q < s.n := ((hs.mem q).mp (List.mem_iff_getElem?.mpr ⟨k', hn⟩)).1
    rcases hl.relTy q hq (fun f => f) hqn j hr with a | a | a
    · exact (noHeap j a).elim
    · exact a
    · exact a.elim

/-- nothing that is done is still waited for -/
theorem done_not_in_after (H : LiveHyp s NR after0 initT xr kx) (hl : Live s after0 initT (fun _ => False) x)
    (i j : Nat) (hj : j ∈ x.after.get i) (hd : j ∈ x.done) : False :=
  hl.gone j hd (fun f => f) i (H.dual i j (hl.sub i j hj)) hj

theorem turn_xdone (hs : SOK s NR) (H : LiveHyp s NR after0 initT xr kx) (hl : Live s after0 initT (fun _ => False) x) (f : Full s NR x)
    (hu : x.unblocked = []) (hw : x.weakBlocked = []) (hk : kx ≤ f.m) : xr ∈ x.done := by
  have hempty : x.after.get xr = [] := by
    apply List.eq_nil_iff_forall_not_mem.mpr
    intro j hj
    have hd := turn_done hs hl f hu hw kx hk j (H.a2 j (hl.sub xr j hj))
    exact done_not_in_after H hl xr j hj hd
  rcases hl.ready xr H.xlt H.xne hempty with a | a | a
  · obtain ⟨e, he, _⟩ := a
    rw [hu, hw] at he
    rcases he with he | he <;> cases he
  · exact a
  · exact a.elim

theorem turn_empty (hs : SOK s NR) (H : LiveHyp s NR after0 initT xr kx) (hl : Live s after0 initT (fun _ => False) x) (f : Full s NR x)
    (hu : x.unblocked = []) (hw : x.weakBlocked = []) (p : Nat) (hp : NR[f.m]? = some p) : x.after.get p = [] := by
  apply List.eq_nil_iff_forall_not_mem.mpr
  intro j hj
  rcases H.a1 f.m p hp j (hl.sub p j hj) with hok | ⟨hk, hjn, hr⟩
  · exact done_not_in_after H hl p j hj (turn_done hs hl f hu hw f.m (Nat.le_refl _) j hok)
  · have hx := turn_xdone hs H hl f hu hw hk
    have noHeap : ∀ m, ¬ inHeap x m := by
      rintro m ⟨e, he, _⟩
      rw [hu, hw] at he
      rcases he with he | he <;> cases he
    rcases hl.relTy xr hx (fun f => f) H.xlt j hr with a | a | a
    · exact (noHeap j a).elim
    · exact done_not_in_after H hl p j hj a
    · exact a.elim

end turn

/-- appending a provider whose constraints are all met keeps `Ord` -/
theorem ord_append {s NR after0 initT xr x k} (hc : Core s NR x k) (d : Dep s after0 initT x) (o : Ord s after0 initT xr x)
    (i : Nat) (hemp : x.after.get i = []) {y : Topo} (hy : y.out = x.out ++ [i]) : Ord s after0 initT xr y := by
  intro b p hb hcons
  rw [hy] at hb ⊢
  have hold : ∀ (a z : Nat), x.out[a]? = some z → (x.out ++ [i])[a]? = some z := by
    intro a z hz
    have : a < x.out.length := by
      rcases Nat.lt_or_ge a x.out.length with hl | hg
      · exact hl
      · rw [List.getElem?_eq_none hg] at hz; cases hz
    rw [List.getElem?_append_left this]; exact hz
  rcases getElem?_append_singleton hb with ⟨_, hb'⟩ | ⟨hbl, hpi⟩
  · obtain ⟨a, ha, hz⟩ := o b p hb' hcons
    exact ⟨a, ha, hold a xr hz⟩
  · subst hpi
    obtain ⟨j, hj, hjn, hni, hsole⟩ := hcons
    have hdn : j ∈ x.done := by
      rcases d.shrink p j hj with hin | hdn
      · rw [hemp] at hin; cases hin
      · exact hdn
    rcases d.doneTy j hdn hjn with hin | ⟨q, hq, hrl⟩
    · exact (hni hin).elim
    · have := hsole q hrl
      subst this
      obtain ⟨a, ha⟩ := List.mem_iff_getElem?.mp hq
      have hal : a < x.out.length := by
        rcases Nat.lt_or_ge a x.out.length with hl | hg
        · exact hl
        · rw [List.getElem?_eq_none hg] at ha; cases ha
      exact ⟨a, by omega, hold a q ha⟩

/-- one node processed with `release = true` -/
theorem step_live {s NR after0 initT xr x k} {i : Nat} (hs : SOK s NR) (hc : Core s NR x k) (d : Dep s after0 initT x)
    (o : Ord s after0 initT xr x)
    (hl : (i ∈ x.done ∧ Live s after0 initT (fun _ => False) x) ∨ (i ∉ x.done ∧ Live s after0 initT (· = i) x))
    (hne : i ≠ s.n) (hemp : i < s.n → x.after.get i = [])
    (hty : s.n < i → initT i ∨ ∃ p ∈ x.out, Releases s p i) :
    Dep s after0 initT (x.processOne s i true) ∧ Live s after0 initT (fun _ => False) (x.processOne s i true) ∧
    Ord s after0 initT xr (x.processOne s i true) := by
  have d2 := processOne_dep hs hc d i true hne (fun hlt _ => hemp hlt) hty
  refine ⟨d2, ?_, ?_⟩
  · rcases hl with ⟨hid, l⟩ | ⟨hnd, l⟩
    · have : x.processOne s i true = x := by
        unfold Topo.processOne
        have : x.done.contains i = true := by simpa using hid
        simp only [this, if_true]
      rw [this]; exact l
    · exact processOne_live hs l hnd hne
  · have hout := processOne_out s x i true
    by_cases hdc : x.done.contains i
    · simp only [hdc, if_true] at hout
      intro b p hb; rw [hout] at hb ⊢; exact o b p hb
    · simp only [hdc, Bool.false_eq_true, if_false] at hout
      by_cases hgt : i > s.n
      · simp only [hgt, if_true] at hout
        intro b p hb; rw [hout] at hb ⊢; exact o b p hb
      · simp only [hgt, if_false] at hout
        exact ord_append hc d o i (hemp (by omega)) hout

end Nject

namespace Nject

/-- **the loop of `topo.run` under the order condition**: when it ends by itself, `xr` has been emitted, every
    provider waiting for a type only `xr` supplies was emitted after it, and the invariants still hold -/
theorem loop_live {s NR after0 initT xr kx} (hs : SOK s NR) (H : LiveHyp s NR after0 initT xr kx) :
    ∀ (fuel : Nat) (x : Topo), Nonempty (Full s NR x) → Dep s after0 initT x → Live s after0 initT (fun _ => False) x →
      Ord s after0 initT xr x → (Topo.loop s fuel x).fuelOut = false →
      xr ∈ (Topo.loop s fuel x).done ∧ Ord s after0 initT xr (Topo.loop s fuel x) ∧ Nonempty (Full s NR (Topo.loop s fuel x))
  | 0, x, _, _, _, _, hfo => by unfold Topo.loop at hfo; simp at hfo
  | fuel + 1, x, ⟨f⟩, d, l, o, hfo => by
    unfold Topo.loop at hfo ⊢
    cases hu : heapPop x.unblocked with
    | some pr =>
      obtain ⟨i, rest⟩ := pr
      simp only [hu] at hfo ⊢
      have ⟨⟨p, hp⟩, hrest⟩ := heapPop_spec hu
      have hrest2 := heapPop_rest hu
      let x1 : Topo := { x with unblocked := rest }
      have c1 : Core s NR x1 f.k := f.core.mono rfl rfl rfl hrest (fun _ h => h)
      have d1 : Dep s after0 initT x1 := d.congr rfl rfl rfl hrest (fun _ h => h)
      have hne : i ≠ s.n := f.core.heapNe (p, i) (Or.inl hp)
      have hpos : ∀ j, NR[j]? = some i → j ≤ f.k := f.core.heapNR (p, i) (Or.inl hp)
      have hh : ∀ m, inHeap x m → inHeap x1 m ∨ m = i := by
        rintro m ⟨e, he, hm⟩
        rcases he with he | he
        · rcases hrest2 e he with a | a
          · exact Or.inl ⟨e, Or.inl a, hm⟩
          · exact Or.inr (hm ▸ a)
        · exact Or.inl ⟨e, Or.inr he, hm⟩
      have hl1 : (i ∈ x1.done ∧ Live s after0 initT (fun _ => False) x1) ∨ (i ∉ x1.done ∧ Live s after0 initT (· = i) x1) := by
        by_cases hid : i ∈ x.done
        · exact Or.inl ⟨hid, l.popDone rfl rfl hh hid⟩
        · exact Or.inr ⟨hid, l.pop rfl rfl hh⟩
      have ⟨d2, l2, o2⟩ := step_live (xr := xr) hs c1 d1 (by exact o) hl1 hne
        (fun hlt => d.heapEmpty (p, i) (Or.inl hp) hlt) (fun hgt => d.heapTy (p, i) (Or.inl hp) hgt)
      obtain ⟨k', _, c2, _, hsub, hcr⟩ := processOne_core hs c1 i true hne hpos
      exact loop_live hs H fuel _ ⟨⟨k', f.m, c2, by rw [hcr]; exact f.cr, fun j a hj ha => hsub a (f.crDone j a hj ha)⟩⟩ d2 l2 o2 hfo
    | none =>
      simp only [hu] at hfo ⊢
      cases hw : heapPop x.weakBlocked with
      | some pr =>
        obtain ⟨i, rest⟩ := pr
        simp only [hw] at hfo ⊢
        have ⟨⟨p, hp⟩, hrest⟩ := heapPop_spec hw
        have hrest2 := heapPop_rest hw
        let x1 : Topo := { x with weakBlocked := rest }
        have c1 : Core s NR x1 f.k := f.core.mono rfl rfl rfl (fun _ h => h) hrest
        have d1 : Dep s after0 initT x1 := d.congr rfl rfl rfl (fun _ h => h) hrest
        have hne : i ≠ s.n := f.core.heapNe (p, i) (Or.inr hp)
        have hpos : ∀ j, NR[j]? = some i → j ≤ f.k := f.core.heapNR (p, i) (Or.inr hp)
        have hh : ∀ m, inHeap x m → inHeap x1 m ∨ m = i := by
          rintro m ⟨e, he, hm⟩
          rcases he with he | he
          · exact Or.inl ⟨e, Or.inl he, hm⟩
          · rcases hrest2 e he with a | a
            · exact Or.inl ⟨e, Or.inr a, hm⟩
            · exact Or.inr (hm ▸ a)
        have hl1 : (i ∈ x1.done ∧ Live s after0 initT (fun _ => False) x1) ∨ (i ∉ x1.done ∧ Live s after0 initT (· = i) x1) := by
          by_cases hid : i ∈ x.done
          · exact Or.inl ⟨hid, l.popDone rfl rfl hh hid⟩
          · exact Or.inr ⟨hid, l.pop rfl rfl hh⟩
        have ⟨d2, l2, o2⟩ := step_live (xr := xr) hs c1 d1 (by exact o) hl1 hne
          (fun hlt => d.heapEmpty (p, i) (Or.inr hp) hlt) (fun hgt => d.heapTy (p, i) (Or.inr hp) hgt)
        obtain ⟨k', _, c2, _, hsub, hcr⟩ := processOne_core hs c1 i true hne hpos
        exact loop_live hs H fuel _ ⟨⟨k', f.m, c2, by rw [hcr]; exact f.cr, fun j a hj ha => hsub a (f.crDone j a hj ha)⟩⟩ d2 l2 o2 hfo
      | none =>
        simp only [hw] at hfo ⊢
        have hue : x.unblocked = [] := heapPop_none hu
        have hwe : x.weakBlocked = [] := heapPop_none hw
        cases hc : x.cannotReorder with
        | nil =>
          simp only [hc] at hfo ⊢
          -- every fixed provider has been taken
          have hm : NR.length ≤ f.m := by
            have := f.cr
            rw [hc] at this
            have hl := congrArg List.length this
            simp at hl
            omega
          exact ⟨turn_xdone hs H l f hue hwe (Nat.le_trans H.kxle hm), o, ⟨f⟩⟩
        | cons i cr =>
          simp only [hc] at hfo ⊢
          let x1 : Topo := { x with cannotReorder := cr }
          have c1 : Core s NR x1 f.k := f.core.mono rfl rfl rfl (fun _ h => h) (fun _ h => h)
          have d1 : Dep s after0 initT x1 := d.congr rfl rfl rfl (fun _ h => h) (fun _ h => h)
          have hdrop : NR.drop f.m = i :: cr := by rw [← f.cr, hc]
          have hml : f.m < NR.length := by
            rcases Nat.lt_or_ge f.m NR.length with h | h
            · exact h
            · rw [List.drop_eq_nil_of_le h] at hdrop; cases hdrop
          have hmi : NR[f.m]? = some i := by
            rw [List.drop_eq_getElem_cons hml] at hdrop
            rw [List.getElem?_eq_getElem hml]
            exact congrArg some (List.cons.inj hdrop).1
          have hcr' : cr = NR.drop (f.m + 1) := by
            rw [List.drop_eq_getElem_cons hml] at hdrop
            exact (List.cons.inj hdrop).2.symm
          have hmemi := (hs.mem i).mp (List.mem_iff_getElem?.mpr ⟨f.m, hmi⟩)
          have hne : i ≠ s.n := by have := hmemi.1; omega
          have hmk : f.m ≤ f.k := by
            rcases Nat.lt_or_ge f.k f.m with hlt | hge
            · have hkl : f.k < NR.length := by omega
              have hk : NR[f.k]? = some NR[f.k] := List.getElem?_eq_getElem hkl
              have hd := f.crDone f.k _ hlt hk
              have := f.core.done_idx hs hk hd
              omega
            · exact hge
          have hpos : ∀ j, NR[j]? = some i → j ≤ f.k := by
            intro j hj
            have := hs.idx_inj hj hmi
            omega
          -- the constraints of `i` are all met
          have hempty : x.after.get i = [] := turn_empty hs H l f hue hwe i hmi
          have hrel : (x.after.get i).isEmpty = true := by rw [hempty]; rfl
          rw [hrel] at hfo ⊢
          have hl1 : (i ∈ x1.done ∧ Live s after0 initT (fun _ => False) x1) ∨ (i ∉ x1.done ∧ Live s after0 initT (· = i) x1) := by
            by_cases hid : i ∈ x.done
            · exact Or.inl ⟨hid, l.congr rfl rfl rfl rfl⟩
            · exact Or.inr ⟨hid, l.pop rfl rfl (fun m hm => Or.inl hm)⟩
          have ⟨d2, l2, o2⟩ := step_live (xr := xr) hs c1 d1 (by exact o) hl1 hne
            (fun _ => hempty) (fun hgt => by have := hmemi.1; omega)
          obtain ⟨k', _, c2, hin, hsub, hcr2⟩ := processOne_core hs c1 i true hne hpos
          refine loop_live hs H fuel _ ⟨⟨k', f.m + 1, c2, by rw [hcr2]; exact hcr', ?_⟩⟩ d2 l2 o2 hfo
          intro j a hj ha
          rcases Nat.lt_or_ge j f.m with hlt | hge
          · exact hsub a (f.crDone j a hlt ha)
          · have : j = f.m := by omega
            subst this
            rw [hmi] at ha
            cases ha
            exact hin

end Nject

namespace Nject

/-- `initT` only occurs in `initTy` -/
theorem Live.changeInit {s after0 initT pend x} (h : Live s after0 initT pend x) (initT' : Nat → Prop)
    (hi : ∀ num, initT' num → inHeap x num ∨ num ∈ x.done ∨ pend num) : Live s after0 initT' pend x :=
  ⟨h.sub, h.gone, h.relTy, hi, h.ready⟩

end Nject
