import NjectProofs.ReorderDeps
/-
  Liveness of `topo.run` (reorder.go): under an order condition on the constraint graph, every fixed
  provider is processed with its constraints met ("release"), and a Reorder'd provider whose own
  constraints are met by the fixed providers before position `kx` is emitted BEFORE the fixed provider
  at position `kx`.

  The argument is about the moments at which the loop takes the next fixed provider: both heaps are
  empty then, so every node that was ever queued has been processed.
-/
namespace Nject

/-! ### `before` / `after` are two views of the strong pairs -/

theorem buildNodes_dual_fold : ∀ (l : List (Nat × Nat)) (ns : Nodes) (S : List (Nat × Nat)),
    (∀ i j, j ∈ ns.after.get i ↔ (i, j) ∈ S) → (∀ i j, i ∈ ns.before.get j ↔ (i, j) ∈ S) →
    let r := l.foldl (fun (ns : Nodes) (p : Nat × Nat) =>
      { ns with before := ns.before.set p.2 (setIns (ns.before.get p.2) p.1),
                after := ns.after.set p.1 (setIns (ns.after.get p.1) p.2) }) ns
    (∀ i j, j ∈ r.after.get i ↔ ((i, j) ∈ S ∨ (i, j) ∈ l)) ∧ (∀ i j, i ∈ r.before.get j ↔ ((i, j) ∈ S ∨ (i, j) ∈ l))
  | [], ns, S, ha, hb => by
    simp only [List.foldl_nil]
    exact ⟨fun i j => by simp [ha i j], fun i j => by simp [hb i j]⟩
  | q :: l, ns, S, ha, hb => by
    simp only [List.foldl_cons]
    let ns1 : Nodes := { ns with before := ns.before.set q.2 (setIns (ns.before.get q.2) q.1),
                                 after := ns.after.set q.1 (setIns (ns.after.get q.1) q.2) }
    have ha1 : ∀ i j, j ∈ ns1.after.get i ↔ (i, j) ∈ S ++ [q] := by
      intro i j
      show j ∈ (ns.after.set q.1 (setIns (ns.after.get q.1) q.2)).get i ↔ _
      rw [NMap.get_set]
      by_cases hi : i = q.1
      · simp only [hi, if_true, mem_setIns, List.mem_append, List.mem_singleton]
        rw [ha q.1 j]
        constructor
        · rintro (h | h)
          · exact Or.inl h
          · right; rw [h]
        · rintro (h | h)
          · exact Or.inl h
          · right; rw [← h]
      · simp only [hi, if_false, List.mem_append, List.mem_singleton]
        rw [ha i j]
        constructor
        · exact Or.inl
        · rintro (h | h)
          · exact h
          · exact (hi (by rw [← h])).elim
    have hb1 : ∀ i j, i ∈ ns1.before.get j ↔ (i, j) ∈ S ++ [q] := by
      intro i j
      show i ∈ (ns.before.set q.2 (setIns (ns.before.get q.2) q.1)).get j ↔ _
      rw [NMap.get_set]
      by_cases hj : j = q.2
      · simp only [hj, if_true, mem_setIns, List.mem_append, List.mem_singleton]
        rw [hb i q.2]
        constructor
        · rintro (h | h)
          · exact Or.inl h
          · right; rw [h]
        · rintro (h | h)
          · exact Or.inl h
          · right; rw [← h]
      · simp only [hj, if_false, List.mem_append, List.mem_singleton]
        rw [hb i j]
        constructor
        · exact Or.inl
        · rintro (h | h)
          · exact h
          · exact (hj (by rw [← h])).elim
    have ⟨r1, r2⟩ := buildNodes_dual_fold l ns1 (S ++ [q]) ha1 hb1
    refine ⟨fun i j => ?_, fun i j => ?_⟩
    · rw [r1 i j, List.mem_append, List.mem_singleton, List.mem_cons, or_assoc]
    · rw [r2 i j, List.mem_append, List.mem_singleton, List.mem_cons, or_assoc]

/-- `j ∈ after(i)` iff `i ∈ before(j)` iff `(i, j)` is a strong pair -/
theorem buildNodes_dual (g : RGraph) :
    (∀ i j, j ∈ (buildNodes g).after.get i ↔ (i, j) ∈ g.strong) ∧ (∀ i j, i ∈ (buildNodes g).before.get j ↔ (i, j) ∈ g.strong) := by
  unfold buildNodes
  have ⟨r1, r2⟩ := buildNodes_dual_fold g.strong {} [] (fun i j => by simp [NMap.get_nil]) (fun i j => by simp [NMap.get_nil])
  have k2 := foldl_keeps (fun (ns : Nodes) (p : Nat × Nat) =>
    { ns with weakBefore := ns.weakBefore.set p.2 (setIns (ns.weakBefore.get p.2) p.1),
              weakAfter := ns.weakAfter.set p.1 (setIns (ns.weakAfter.get p.1) p.2) }) (fun _ _ => rfl) (fun _ _ => rfl) g.weak
  have k3 := foldl_keeps (fun (ns : Nodes) (p : Nat × Nat) =>
    if !(ns.weakBefore.get p.1).contains p.2 then ns else
    let wb := ns.weakBefore.set p.2 (setDel (ns.weakBefore.get p.2) p.1)
    let wb := wb.set p.1 (setDel (wb.get p.1) p.1)
    let wa := ns.weakAfter.set p.1 (setDel (ns.weakAfter.get p.1) p.2)
    let wa := wa.set p.2 (setDel (wa.get p.2) p.2)
    { ns with weakBefore := wb, weakAfter := wa })
    (fun ns a => by dsimp only; split <;> rfl) (fun ns a => by dsimp only; split <;> rfl) g.weak
  simp only []
  constructor
  · intro i j
    rw [(k3 _).2, (k2 _).2, r1 i j]; simp
  · intro i j
    rw [(k3 _).1, (k2 _).1, r2 i j]; simp

end Nject

namespace Nject

/-! ### the liveness invariant -/

def inHeap (x : Topo) (m : Nat) : Prop := ∃ e, (e ∈ x.unblocked ∨ e ∈ x.weakBlocked) ∧ e.2 = m

/-- `pend`: the node being processed right now (taken off its queue, not yet through `processOne`) -/
structure Live (s : TopoS) (after0 : NMap) (initT : Nat → Prop) (pend : Nat → Prop) (x : Topo) : Prop where
  sub : ∀ i j, j ∈ x.after.get i → j ∈ after0.get i
  gone : ∀ m ∈ x.done, ¬ pend m → ∀ n' ∈ s.before.get m, m ∉ x.after.get n'
  relTy : ∀ q ∈ x.done, ¬ pend q → q < s.n → ∀ num, Releases s q num → inHeap x num ∨ num ∈ x.done ∨ pend num
  initTy : ∀ num, initT num → inHeap x num ∨ num ∈ x.done ∨ pend num
  ready : ∀ i, i < s.n → after0.get i ≠ [] → x.after.get i = [] → inHeap x i ∨ i ∈ x.done ∨ pend i

/-- what `release` and the folds over it do to the rest of the state: `out`, `done` untouched, `after` sets
    only shrink, queue entries stay -/
structure Frame2 (x x' : Topo) : Prop where
  out : x'.out = x.out
  done : x'.done = x.done
  cr : x'.cannotReorder = x.cannotReorder
  aft : ∀ a b, b ∈ x'.after.get a → b ∈ x.after.get a
  heap : ∀ m, inHeap x m → inHeap x' m

theorem Frame2.refl (x : Topo) : Frame2 x x := ⟨rfl, rfl, rfl, fun _ _ h => h, fun _ h => h⟩
theorem Frame2.trans {x y z : Topo} (h1 : Frame2 x y) (h2 : Frame2 y z) : Frame2 x z :=
  ⟨h2.out.trans h1.out, h2.done.trans h1.done, h2.cr.trans h1.cr, fun a b h => h1.aft a b (h2.aft a b h), fun m h => h2.heap m (h1.heap m h)⟩

theorem inHeap_pushU (s : TopoS) (x : Topo) (n' m : Nat) : inHeap (x.pushU s n') m ↔ inHeap x m ∨ m = n' := by
  unfold inHeap Topo.pushU
  constructor
  · rintro ⟨e, he, hm⟩
    rcases he with he | he
    · rcases List.mem_cons.mp he with rfl | he
      · exact Or.inr hm.symm
      · exact Or.inl ⟨e, Or.inl he, hm⟩
    · exact Or.inl ⟨e, Or.inr he, hm⟩
  · rintro (⟨e, he, hm⟩ | hm)
    · exact ⟨e, he.elim (fun h => Or.inl (List.mem_cons_of_mem _ h)) Or.inr, hm⟩
    · exact ⟨(prio s.n s.isReorder n', n'), Or.inl (by simp), hm.symm⟩

theorem inHeap_pushW (s : TopoS) (x : Topo) (n' m : Nat) : inHeap (x.pushW s n') m ↔ inHeap x m ∨ m = n' := by
  unfold inHeap Topo.pushW
  constructor
  · rintro ⟨e, he, hm⟩
    rcases he with he | he
    · exact Or.inl ⟨e, Or.inl he, hm⟩
    · rcases List.mem_cons.mp he with rfl | he
      · exact Or.inr hm.symm
      · exact Or.inl ⟨e, Or.inr he, hm⟩
  · rintro (⟨e, he, hm⟩ | hm)
    · exact ⟨e, he.elim Or.inl (fun h => Or.inr (List.mem_cons_of_mem _ h)), hm⟩
    · exact ⟨(prio s.n s.isReorder n', n'), Or.inr (by simp), hm.symm⟩

/-- a push keeps the invariant -/
theorem Live.push {s after0 initT pend x} (h : Live s after0 initT pend x) (n' : Nat) (weak : Bool) :
    Live s after0 initT pend (if weak then x.pushW s n' else x.pushU s n') := by
  have hh : ∀ m, inHeap x m → inHeap (if weak then x.pushW s n' else x.pushU s n') m := by
    intro m hm
    cases weak with
    | false => simp only [Bool.false_eq_true, if_false]; exact (inHeap_pushU s x n' m).mpr (Or.inl hm)
    | true => simp only [if_true]; exact (inHeap_pushW s x n' m).mpr (Or.inl hm)
  have hsame : (if weak then x.pushW s n' else x.pushU s n').after = x.after ∧ (if weak then x.pushW s n' else x.pushU s n').done = x.done := by
    cases weak <;> exact ⟨rfl, rfl⟩
  refine ⟨?_, ?_, ?_, ?_, ?_⟩
  · rw [hsame.1]; exact h.sub
  · rw [hsame.1, hsame.2]; exact h.gone
  · intro q hq hp hlt num hr
    rw [hsame.2] at hq ⊢
    rcases h.relTy q hq hp hlt num hr with a | a | a
    · exact Or.inl (hh num a)
    · exact Or.inr (Or.inl a)
    · exact Or.inr (Or.inr a)
  · intro num hi
    rw [hsame.2]
    rcases h.initTy num hi with a | a | a
    · exact Or.inl (hh num a)
    · exact Or.inr (Or.inl a)
    · exact Or.inr (Or.inr a)
  · intro i hi h0 he
    rw [hsame.1] at he
    rw [hsame.2]
    rcases h.ready i hi h0 he with a | a | a
    · exact Or.inl (hh i a)
    · exact Or.inr (Or.inl a)
    · exact Or.inr (Or.inr a)

theorem release_live {s after0 initT pend x} (h : Live s after0 initT pend x) (n' i : Nat) :
    Live s after0 initT pend (x.release s n' i) ∧ Frame2 x (x.release s n' i) ∧
    (n' ≥ s.n → inHeap (x.release s n' i) n') ∧ (n' < s.n → i ∉ (x.release s n' i).after.get n') := by
  unfold Topo.release
  by_cases hge : n' ≥ s.n
  · rw [if_pos hge]
    have := h.push n' false
    simp only [Bool.false_eq_true, if_false] at this
    refine ⟨this, ⟨rfl, rfl, rfl, fun _ _ hb => hb, fun m hm => (inHeap_pushU s x n' m).mpr (Or.inl hm)⟩,
      fun _ => (inHeap_pushU s x n' n').mpr (Or.inr rfl), fun hlt => by omega⟩
  · rw [if_neg hge]
    let x1 : Topo := { x with after := x.after.set n' (setDel (x.after.get n') i), weakAfter := x.weakAfter.set n' (setDel (x.weakAfter.get n') i) }
    have haft : ∀ a b, b ∈ x1.after.get a → b ∈ x.after.get a := by
      intro a b hb
      have hb' : b ∈ (x.after.set n' (setDel (x.after.get n') i)).get a := hb
      rw [NMap.get_set] at hb'
      by_cases ha : a = n'
      · simp only [ha, if_true] at hb'; rw [ha]; exact (mem_setDel.mp hb').1
      · simp only [ha, if_false] at hb'; exact hb'
    have hni : i ∉ x1.after.get n' := by
      show i ∉ (x.after.set n' (setDel (x.after.get n') i)).get n'
      rw [NMap.get_set]; simp only [if_true]
      intro hc; exact (mem_setDel.mp hc).2 rfl
    have hheap1 : ∀ m, inHeap x m → inHeap x1 m := fun m hm => hm
    -- x1 satisfies everything except `ready` for n'
    have l1 : ∀ i', i' ≠ n' → i' < s.n → after0.get i' ≠ [] → x1.after.get i' = [] → inHeap x1 i' ∨ i' ∈ x1.done ∨ pend i' := by
      intro i' hne hi' h0 he
      have : x1.after.get i' = x.after.get i' := by
        show (x.after.set n' (setDel (x.after.get n') i)).get i' = _
        rw [NMap.get_set]; simp [hne]
      rw [this] at he
      exact h.ready i' hi' h0 he
    have base : ∀ y : Topo, y.after = x1.after → y.done = x1.done → (∀ m, inHeap x1 m → inHeap y m) →
        ((x1.after.get n' = [] → inHeap y n') → Live s after0 initT pend y) := by
      intro y ha hd hh hn
      refine ⟨?_, ?_, ?_, ?_, ?_⟩
      · intro a b hb; rw [ha] at hb; exact h.sub a b (haft a b hb)
      · intro m hm hp n'' hn'' hc
        rw [ha] at hc; rw [hd] at hm
        exact h.gone m hm hp n'' hn'' (haft n'' m hc)
      · intro q hq hp hlt num hr
        rw [hd] at hq ⊢
        rcases h.relTy q hq hp hlt num hr with a | a | a
        · exact Or.inl (hh num a)
        · exact Or.inr (Or.inl a)
        · exact Or.inr (Or.inr a)
      · intro num hi
        rw [hd]
        rcases h.initTy num hi with a | a | a
        · exact Or.inl (hh num a)
        · exact Or.inr (Or.inl a)
        · exact Or.inr (Or.inr a)
      · intro i' hi' h0 he
        rw [ha] at he; rw [hd]
        by_cases hne : i' = n'
        · subst hne; exact Or.inl (hn he)
        · rcases l1 i' hne hi' h0 he with a | a | a
          · exact Or.inl (hh i' a)
          · exact Or.inr (Or.inl a)
          · exact Or.inr (Or.inr a)
    show Live s after0 initT pend (if (x1.after.get n').isEmpty then (if (x1.weakAfter.get n').isEmpty then x1.pushU s n' else x1.pushW s n') else x1) ∧
      Frame2 x (if (x1.after.get n').isEmpty then (if (x1.weakAfter.get n').isEmpty then x1.pushU s n' else x1.pushW s n') else x1) ∧
      (n' ≥ s.n → inHeap (if (x1.after.get n').isEmpty then (if (x1.weakAfter.get n').isEmpty then x1.pushU s n' else x1.pushW s n') else x1) n') ∧
      (n' < s.n → i ∉ (if (x1.after.get n').isEmpty then (if (x1.weakAfter.get n').isEmpty then x1.pushU s n' else x1.pushW s n') else x1).after.get n')
    by_cases hemp : (x1.after.get n').isEmpty
    · simp only [hemp, if_true]
      by_cases hw : (x1.weakAfter.get n').isEmpty
      · simp only [hw, if_true]
        refine ⟨base (x1.pushU s n') rfl rfl (fun m hm => (inHeap_pushU s x1 n' m).mpr (Or.inl hm)) (fun _ => (inHeap_pushU s x1 n' n').mpr (Or.inr rfl)),
          ⟨rfl, rfl, rfl, haft, fun m hm => (inHeap_pushU s x1 n' m).mpr (Or.inl (hheap1 m hm))⟩, fun hc => (hge hc).elim, fun _ => hni⟩
      · simp only [hw, if_false]
        refine ⟨base (x1.pushW s n') rfl rfl (fun m hm => (inHeap_pushW s x1 n' m).mpr (Or.inl hm)) (fun _ => (inHeap_pushW s x1 n' n').mpr (Or.inr rfl)),
          ⟨rfl, rfl, rfl, haft, fun m hm => (inHeap_pushW s x1 n' m).mpr (Or.inl (hheap1 m hm))⟩, fun hc => (hge hc).elim, fun _ => hni⟩
    · simp only [hemp, if_false]
      refine ⟨base x1 rfl rfl (fun m hm => hm) (fun he => by rw [he] at hemp; simp at hemp), ⟨rfl, rfl, rfl, haft, hheap1⟩, fun hc => (hge hc).elim, fun _ => hni⟩

end Nject
