import NjectProofs.IncludeStatic
/-
  `providesReturns` leaves the marks alone: `excluded`, `cannot`, `wanted` and `inc` of every provider are what
  they were (the same induction as `SF` in IncludeStatic.lean, for the other group of fields).
-/
namespace Nject

/-- an update that leaves the marks alone -/
def KeepsX (g : IP → IP) : Prop := ∀ f, (g f).excluded = f.excluded ∧ (g f).cannot = f.cannot ∧ (g f).wanted = f.wanted ∧ (g f).inc = f.inc

/-- same length, and position by position the same marks -/
def XF (ch ch' : Chain) : Prop :=
  ch'.length = ch.length ∧ ∀ j, (ch'.get j).excluded = (ch.get j).excluded ∧ (ch'.get j).cannot = (ch.get j).cannot ∧ (ch'.get j).wanted = (ch.get j).wanted ∧ (ch'.get j).inc = (ch.get j).inc

theorem XF_refl (ch : Chain) : XF ch ch := ⟨rfl, fun _ => ⟨rfl, rfl, rfl, rfl⟩⟩

theorem XF_trans {a b c : Chain} (h1 : XF a b) (h2 : XF b c) : XF a c :=
  ⟨h2.1.trans h1.1, fun j => ⟨(h2.2 j).1.trans (h1.2 j).1, (h2.2 j).2.1.trans (h1.2 j).2.1, (h2.2 j).2.2.1.trans (h1.2 j).2.2.1, (h2.2 j).2.2.2.trans (h1.2 j).2.2.2⟩⟩

theorem XF_upd (ch : Chain) (i : Nat) (g : IP → IP) (hg : KeepsX g) : XF ch (ch.upd i g) := by
  refine ⟨upd_length ch i g, fun j => ?_⟩
  rw [get_upd]
  split
  · rename_i hc; rw [hc.1]; exact hg (ch.get i)
  · exact ⟨rfl, rfl, rfl, rfl⟩

theorem XF_map (ch : Chain) (g : IP → IP) (hg : KeepsX g) : XF ch (ch.map g) := by
  refine ⟨by simp, fun j => ?_⟩
  by_cases hj : j < ch.length
  · have : Chain.get (ch.map g) j = g (ch.get j) := by
      simp [Chain.get, List.getD, List.getElem?_map, List.getElem?_eq_getElem hj]
    rw [this]; exact hg (ch.get j)
  · rw [get_default_of_ge _ j (by simpa using hj), get_default_of_ge ch j hj]
    exact ⟨rfl, rfl, rfl, rfl⟩

theorem foldl_XF {α} (f : Chain → α → Chain) (hf : ∀ c a, XF c (f c a)) : ∀ (l : List α) (c : Chain), XF c (l.foldl f c)
  | [], c => XF_refl c
  | a :: l, c => by simp only [List.foldl_cons]; exact XF_trans (hf c a) (foldl_XF f hf l (f c a))

theorem foldl_XF_pair {α β} (f : Chain × β → α → Chain × β) (hf : ∀ acc a, XF acc.1 (f acc a).1) :
    ∀ (l : List α) (acc : Chain × β), XF acc.1 (l.foldl f acc).1
  | [], acc => XF_refl acc.1
  | a :: l, acc => by simp only [List.foldl_cons]; exact XF_trans (hf acc a) (foldl_XF_pair f hf l (f acc a))

theorem ite_XF {ch x y : Chain} (c : Prop) [Decidable c] (hx : XF ch x) (hy : XF ch y) : XF ch (if c then x else y) := by
  split
  · exact hx
  · exact hy

/-! ### `providesReturns` -/

theorem depStep_XF (param : Param) (i : Nat) (t : Ty) (ch : Chain) (d : Nat) : XF ch (depStep param i t ch d) := by
  unfold depStep
  simp only []
  have k1 : KeepsX (fun f => match param with
      | .inp => { f with usesIn := appendAt f.usesIn t d, uses := f.uses ++ [d] }
      | .recv => { f with usesRecv := appendAt f.usesRecv t d, uses := f.uses ++ [d] }
      | .byp => { f with usesByp := appendAt f.usesByp t d, uses := f.uses ++ [d] }) := by
    intro f; cases param <;> exact ⟨rfl, rfl, rfl, rfl⟩
  have k2 : KeepsX (fun g =>
      if (param != .recv) = true then { g with usedBy := g.usedBy ++ [i], usedByOut := appendAt g.usedByOut t i }
      else { g with usedBy := g.usedBy ++ [i], usedByRet := appendAt g.usedByRet t i }) := by
    intro f; split <;> exact ⟨rfl, rfl, rfl, rfl⟩
  have k3 : KeepsX (fun f => { f with usedBy := f.usedBy ++ [d] }) := fun f => ⟨rfl, rfl, rfl, rfl⟩
  have s12 := XF_trans (XF_upd ch i _ k1) (XF_upd _ d _ k2)
  apply ite_XF
  · exact XF_trans s12 (XF_upd _ i _ k3)
  · exact s12

theorem typeStep_XF (ti : TyInfo) (avail : IMap) (param : Param) (i : Nat) (ch : Chain) (t : Ty) :
    XF ch (typeStep ti avail param i ch t) := by
  unfold typeStep
  split
  · apply XF_upd; intro f; unfold errStep; cases param <;> exact ⟨rfl, rfl, rfl, rfl⟩
  · refine XF_trans (XF_upd ch i _ ?_) (foldl_XF _ (fun c d => depStep_XF param i t c d) _ _)
    intro f; unfold rmapStep; cases param <;> exact ⟨rfl, rfl, rfl, rfl⟩

theorem requireParams_XF (ti : TyInfo) (ch : Chain) (i : Nat) (avail : IMap) (param : Param) :
    XF ch (requireParams ti ch i avail param) := by
  rw [requireParams_eq]
  refine XF_trans (XF_upd ch i _ ?_) (foldl_XF _ (fun c t => typeStep_XF ti avail param i c t) _ _)
  intro f; unfold resetStep; cases param <;> exact ⟨rfl, rfl, rfl, rfl⟩

theorem provideParams_XF (ch : Chain) (i : Nat) (avail : IMap) (down : Bool) (layer : Nat) :
    XF ch (provideParams ch i avail down layer).1 := by
  unfold provideParams
  simp only []
  apply XF_upd
  intro f; cases down <;> exact ⟨rfl, rfl, rfl, rfl⟩

theorem downStep_XF (ti : TyInfo) (initPos : Option Nat) (acc : Chain × IMap) (i : Nat) : XF acc.1 (downStep ti initPos acc i).1 := by
  obtain ⟨ch, avail⟩ := acc
  unfold downStep
  simp only []
  split
  · exact XF_refl ch
  · cases initPos with
    | none =>
      simp only []
      exact XF_trans (requireParams_XF ti ch i avail .inp) (provideParams_XF _ i avail true (i + 2))
    | some ip =>
      simp only []
      split
      · have a1 : XF ch (ch.upd ip fun f => { f with bypassRmap := [] }) := XF_upd ch ip _ (fun f => ⟨rfl, rfl, rfl, rfl⟩)
        have a2 := requireParams_XF ti (ch.upd ip fun f => { f with bypassRmap := [] }) ip avail .byp
        have a3 := requireParams_XF ti (requireParams ti (ch.upd ip fun f => { f with bypassRmap := [] }) ip avail .byp) i avail .inp
        have a4 := provideParams_XF (requireParams ti (requireParams ti (ch.upd ip fun f => { f with bypassRmap := [] }) ip avail .byp) i avail .inp) i avail true (i + 2)
        exact XF_trans (XF_trans (XF_trans a1 a2) a3) a4
      · exact XF_trans (requireParams_XF ti ch i avail .inp) (provideParams_XF _ i avail true (i + 2))

theorem upStep_XF (ti : TyInfo) (n : Nat) (acc : Chain × IMap) (i : Nat) : XF acc.1 (upStep ti n acc i).1 := by
  obtain ⟨ch, avail⟩ := acc
  unfold upStep
  simp only []
  split
  · exact XF_refl ch
  · exact XF_trans (requireParams_XF ti ch i avail .recv) (provideParams_XF _ i avail false (n - i + 2))

theorem providesReturns_XF (ti : TyInfo) (ch : Chain) (initPos : Option Nat) : XF ch (providesReturns ti ch initPos) := by
  rw [providesReturns_eq]
  have h0 : XF ch (ch.map resetDeps) := XF_map ch resetDeps (fun f => ⟨rfl, rfl, rfl, rfl⟩)
  have h1 := foldl_XF_pair (downStep ti initPos) (fun acc i => downStep_XF ti initPos acc i) (List.range ch.length) (ch.map resetDeps, ([] : IMap))
  have h2 := foldl_XF_pair (upStep ti ch.length) (fun acc i => upStep_XF ti ch.length acc i) (List.range ch.length).reverse
    (((List.range ch.length).foldl (downStep ti initPos) (ch.map resetDeps, ([] : IMap))).1, ([] : IMap))
  exact XF_trans (XF_trans h0 h1) h2


end Nject
