import NjectProofs.IncludeProv
/-
  Where the consumers recorded for an OUTPUT type come from (the downward pass of `providesReturns`):
  whoever is listed in `usedByOut` of provider `d` under the key `t` either is listed after `d` and
  has `t` among its inputs, or is the init function of an invoke/init pair and has `t` among the
  parameters that bypass the invoke function.  The upward pass and the final validation leave
  `usedByOut` alone.  Used for the C14 theorem in `NjectProps/C14.lean`.
-/
namespace Nject

/-- what a recorded consumer `q` of output `t` of provider `d` looks like -/
def GoodC (initPos : Option Nat) (I B : Nat → List Ty) (d : Nat) (t : Ty) (q : Nat) : Prop :=
  (d < q ∧ t ∈ I q) ∨ (initPos = some q ∧ t ∈ B q)

/-- the invariant of the downward pass; `I`/`B` are the (static) input / bypass types by position -/
structure DI (initPos : Option Nat) (I B : Nat → List Ty) (ch : Chain) : Prop where
  hc : ∀ j, (ch.get j).c.inp = I j ∧ (ch.get j).c.byp = B j
  a : ∀ d e q, e ∈ (ch.get d).usedByOut → q ∈ e.2 → GoodC initPos I B d e.1 q

/-- an update that leaves `usedByOut` and `c` alone -/
theorem DI_frame {initPos I B ch} (h : DI initPos I B ch) (k : Nat) (g : IP → IP)
    (hg : ∀ f, (g f).usedByOut = f.usedByOut ∧ (g f).c = f.c) : DI initPos I B (ch.upd k g) := by
  have hu : ∀ j, ((ch.upd k g).get j).usedByOut = (ch.get j).usedByOut ∧ ((ch.upd k g).get j).c = (ch.get j).c := by
    intro j
    rw [get_upd]
    split
    · rename_i hc; rw [hc.1]; exact hg _
    · exact ⟨rfl, rfl⟩
  exact
    { hc := fun j => by rw [(hu j).2]; exact h.hc j
      a := fun d e q he hq => h.a d e q (by rw [← (hu d).1]; exact he) hq }

/-- an update of `d` that records `k` as a consumer of `t` -/
theorem DI_addConsumer {initPos I B ch} (h : DI initPos I B ch) (d k : Nat) (t : Ty) (g : IP → IP)
    (hg : ∀ f, (g f).usedByOut = appendAt f.usedByOut t k ∧ (g f).c = f.c)
    (hgood : GoodC initPos I B d t k) : DI initPos I B (ch.upd d g) := by
  exact
    { hc := fun j => by
        rw [get_upd]
        split
        · rename_i hj; rw [(hg _).2, hj.1]; exact h.hc d
        · exact h.hc j
      a := fun d' e q he hq => by
        rw [get_upd] at he
        split at he
        · rename_i hj
          rw [(hg _).1] at he
          rcases mem_appendAt_entry he hq with ⟨e0, he0, hk0, hq0⟩ | ⟨hkt, hqi⟩
          · rw [hj.1, ← hk0]; exact h.a d e0 q he0 hq0
          · rw [hj.1, hkt, hqi]; exact hgood
        · exact h.a d' e q he hq }

theorem DI_ite {initPos I B} {x y : Chain} (c : Prop) [Decidable c] (hx : DI initPos I B x) (hy : DI initPos I B y) :
    DI initPos I B (if c then x else y) := by
  split
  · exact hx
  · exact hy

theorem depStep_DI {initPos I B ch} {param : Param} (hp : param ≠ .recv) {k : Nat} {t : Ty} {d : Nat}
    (h : DI initPos I B ch) (hgood : GoodC initPos I B d t k) : DI initPos I B (depStep param k t ch d) := by
  cases param with
  | recv => exact absurd rfl hp
  | inp =>
    unfold depStep
    simp only []
    have h1 := DI_frame h k (fun f => { f with usesIn := appendAt f.usesIn t d, uses := f.uses ++ [d] }) (fun f => ⟨rfl, rfl⟩)
    have h2 := DI_addConsumer h1 d k t
      (fun g => { g with usedBy := g.usedBy ++ [k], usedByOut := appendAt g.usedByOut t k }) (fun f => ⟨rfl, rfl⟩) hgood
    apply DI_ite
    · exact DI_frame h2 k (fun f => { f with usedBy := f.usedBy ++ [d] }) (fun f => ⟨rfl, rfl⟩)
    · exact h2
  | byp =>
    unfold depStep
    simp only []
    have h1 := DI_frame h k (fun f => { f with usesByp := appendAt f.usesByp t d, uses := f.uses ++ [d] }) (fun f => ⟨rfl, rfl⟩)
    have h2 := DI_addConsumer h1 d k t
      (fun g => { g with usedBy := g.usedBy ++ [k], usedByOut := appendAt g.usedByOut t k }) (fun f => ⟨rfl, rfl⟩) hgood
    apply DI_ite
    · exact DI_frame h2 k (fun f => { f with usedBy := f.usedBy ++ [d] }) (fun f => ⟨rfl, rfl⟩)
    · exact h2

theorem deps_foldl_DI {initPos I B} {param : Param} (hp : param ≠ .recv) {k : Nat} {t : Ty} :
    ∀ (deps : List Nat) (ch : Chain), DI initPos I B ch → (∀ d ∈ deps, GoodC initPos I B d t k) →
      DI initPos I B (deps.foldl (depStep param k t) ch)
  | [], _, h, _ => h
  | d :: deps, ch, h, hd => by
    simp only [List.foldl_cons]
    exact deps_foldl_DI hp deps _ (depStep_DI hp h (hd d (by simp))) (fun x hx => hd x (by simp [hx]))

theorem typeStep_DI {ti : TyInfo} {initPos I B ch avail} {param : Param} (hp : param ≠ .recv) {k : Nat} {t : Ty}
    (h : DI initPos I B ch) (hgood : ∀ e ∈ avail, ∀ d ∈ e.2.2, GoodC initPos I B d t k) :
    DI initPos I B (typeStep ti avail param k ch t) := by
  unfold typeStep
  cases hb : bestMatch ti (fun p => (ch.get p).c.loose) avail t with
  | none =>
    simp only []
    exact DI_frame h k _ (fun f => by unfold errStep; cases param <;> exact ⟨rfl, rfl⟩)
  | some r =>
    obtain ⟨found, deps⟩ := r
    simp only []
    apply deps_foldl_DI hp deps _ (DI_frame h k _ (fun f => by unfold rmapStep; cases param <;> exact ⟨rfl, rfl⟩))
    intro d hd
    obtain ⟨e, he, hde⟩ := bm_deps_mem hb d hd
    exact hgood e he d hde

theorem types_foldl_DI {ti : TyInfo} {initPos I B avail} {param : Param} (hp : param ≠ .recv) {k : Nat} :
    ∀ (l : List Ty) (ch : Chain), DI initPos I B ch →
      (∀ t ∈ l, ∀ e ∈ avail, ∀ d ∈ e.2.2, GoodC initPos I B d t k) →
      DI initPos I B (l.foldl (typeStep ti avail param k) ch)
  | [], _, h, _ => h
  | t :: l, ch, h, hl => by
    simp only [List.foldl_cons]
    exact types_foldl_DI hp l _ (typeStep_DI hp h (hl t (by simp))) (fun x hx => hl x (by simp [hx]))

theorem requireParams_DI {ti : TyInfo} {initPos I B ch avail} {param : Param} (hp : param ≠ .recv) {k : Nat}
    (h : DI initPos I B ch)
    (hgood : ∀ t ∈ flowOfParam (ch.get k) param, ∀ e ∈ avail, ∀ d ∈ e.2.2, GoodC initPos I B d t k) :
    DI initPos I B (requireParams ti ch k avail param) := by
  rw [requireParams_eq]
  apply types_foldl_DI hp _ _ (DI_frame h k _ (fun f => by unfold resetStep; cases param <;> exact ⟨rfl, rfl⟩))
  intro t ht
  exact hgood t (List.mem_filter.mp ht).1

/-- the table lists providers before `lo` only -/
def AvBelow (lo : Nat) (avail : IMap) : Prop := ∀ e ∈ avail, ∀ p ∈ e.2.2, p < lo

theorem downStep_DI {ti : TyInfo} {initPos I B} {acc : Chain × IMap} {i : Nat}
    (h : DI initPos I B acc.1) (hav : AvBelow i acc.2) :
    DI initPos I B (downStep ti initPos acc i).1 ∧ AvBelow (i + 1) (downStep ti initPos acc i).2 := by
  obtain ⟨ch, avail⟩ := acc
  unfold downStep
  simp only []
  split
  · exact ⟨h, fun e he p hp => Nat.lt_succ_of_lt (hav e he p hp)⟩
  · have tail : ∀ c1 : Chain, DI initPos I B c1 →
        DI initPos I B (provideParams (requireParams ti c1 i avail .inp) i avail true (i + 2)).1 ∧
        AvBelow (i + 1) (provideParams (requireParams ti c1 i avail .inp) i avail true (i + 2)).2 := by
      intro c1 h1
      have h2 : DI initPos I B (requireParams ti c1 i avail .inp) := by
        apply requireParams_DI (by simp) h1
        intro t ht e he d hd
        left
        refine ⟨hav e he d hd, ?_⟩
        rw [← (h1.hc i).1]; exact ht
      unfold provideParams
      simp only [if_true]
      refine ⟨?_, ?_⟩
      · -- usedByOut of i is reset
        exact
          { hc := fun j => by
              rw [get_upd]; split
              · rename_i hj; rw [hj.1]; exact h2.hc i
              · exact h2.hc j
            a := fun d e q he hq => by
              rw [get_upd] at he; split at he
              · cases he
              · exact h2.a d e q he hq }
      · intro e he p hp
        have ⟨s1, _, _⟩ := adds_foldl_spec (i + 2) i (((requireParams ti c1 i avail .inp).get i).c.out.filter
          (fun t => t != tNoType && (t != tUnused || ((requireParams ti c1 i avail .inp).get i).c.synthetic))) avail
        rcases s1 e he p hp with ⟨e0, he0, hp0⟩ | hpi
        · exact Nat.lt_succ_of_lt (hav e0 he0 p hp0)
        · rw [hpi]; exact Nat.lt_succ_self i
    cases initPos with
    | none => exact tail ch h
    | some ip =>
      simp only []
      split
      · apply tail
        have h1 : DI (some ip) I B (ch.upd ip fun f => { f with bypassRmap := [] }) := DI_frame h ip _ (fun f => ⟨rfl, rfl⟩)
        apply requireParams_DI (by simp) h1
        intro t ht e he d hd
        right
        refine ⟨rfl, ?_⟩
        rw [← (h1.hc ip).2]; exact ht
      · exact tail ch h

theorem down_foldl_DI {ti : TyInfo} {initPos I B} : ∀ (k lo : Nat) (acc : Chain × IMap), DI initPos I B acc.1 → AvBelow lo acc.2 →
    DI initPos I B (((List.range' lo k).foldl (downStep ti initPos) acc).1)
  | 0, _, _, h, _ => by simpa using h
  | k + 1, lo, acc, h, hav => by
    rw [List.range'_succ]
    simp only [List.foldl_cons]
    have ⟨h1, h2⟩ := downStep_DI (ti := ti) h hav
    exact down_foldl_DI k (lo + 1) _ h1 h2

/-! ### the upward pass does not touch `usedByOut` -/

theorem depStep_up_usedByOut (i : Nat) (t : Ty) (ch : Chain) (d : Nat) :
    Pres (·.usedByOut) ch (depStep .recv i t ch d) := by
  unfold depStep
  simp only []
  apply ite_Pres
  · refine Pres_trans ?_ (Pres_upd _ _ _ _ (fun f => rfl))
    refine Pres_trans ?_ (Pres_upd _ _ _ _ (fun f => rfl))
    exact Pres_upd _ _ _ _ (fun f => rfl)
  · refine Pres_trans ?_ (Pres_upd _ _ _ _ (fun f => rfl))
    exact Pres_upd _ _ _ _ (fun f => rfl)

theorem typeStep_up_usedByOut (ti : TyInfo) (avail : IMap) (i : Nat) (ch : Chain) (t : Ty) :
    Pres (·.usedByOut) ch (typeStep ti avail .recv i ch t) := by
  unfold typeStep
  split
  · exact Pres_upd _ ch i _ (fun f => rfl)
  · refine Pres_trans ?_ (foldl_Pres _ _ (fun c d => depStep_up_usedByOut i t c d) _ _)
    exact Pres_upd _ ch i _ (fun f => rfl)

theorem requireParams_up_usedByOut (ti : TyInfo) (ch : Chain) (i : Nat) (avail : IMap) :
    Pres (·.usedByOut) ch (requireParams ti ch i avail .recv) := by
  rw [requireParams_eq]
  refine Pres_trans ?_ (foldl_Pres _ _ (fun c t => typeStep_up_usedByOut ti avail i c t) _ _)
  exact Pres_upd _ ch i _ (fun f => rfl)

theorem upStep_usedByOut (ti : TyInfo) (n : Nat) (acc : Chain × IMap) (i : Nat) :
    Pres (·.usedByOut) acc.1 (upStep ti n acc i).1 := by
  obtain ⟨ch, avail⟩ := acc
  unfold upStep
  simp only []
  split
  · exact Pres_refl _ _
  · unfold provideParams
    simp only [Bool.false_eq_true, if_false]
    exact Pres_trans (requireParams_up_usedByOut ti ch i avail) (Pres_upd _ _ i _ (fun f => rfl))

theorem up_foldl_usedByOut (ti : TyInfo) (n : Nat) : ∀ (l : List Nat) (acc : Chain × IMap),
    Pres (·.usedByOut) acc.1 (l.foldl (upStep ti n) acc).1
  | [], acc => Pres_refl _ _
  | i :: l, acc => by
    simp only [List.foldl_cons]
    exact Pres_trans (upStep_usedByOut ti n acc i) (up_foldl_usedByOut ti n l _)

/-- **where recorded consumers of outputs come from**: after `providesReturns`, whoever is listed as a
    consumer of the type `e.1` provided by `d` is listed after `d` and takes that type as an input, or
    is the init function and takes it as a parameter bypassing the invoke function -/
theorem providesReturns_provDown (ti : TyInfo) (ch : Chain) (initPos : Option Nat) :
    ∀ d e q, e ∈ ((providesReturns ti ch initPos).get d).usedByOut → q ∈ e.2 →
      (d < q ∧ e.1 ∈ ((providesReturns ti ch initPos).get q).c.inp) ∨
      (initPos = some q ∧ e.1 ∈ ((providesReturns ti ch initPos).get q).c.byp) := by
  have hsf := providesReturns_SF ti ch initPos
  rw [providesReturns_eq] at hsf ⊢
  have d0 : DI initPos (fun j => (ch.get j).c.inp) (fun j => (ch.get j).c.byp) (ch.map resetDeps) :=
    { hc := fun j => by
        have := (SF_map ch resetDeps (fun f => ⟨rfl, rfl, rfl, rfl⟩)).2 j
        rw [this.2.2.1]; exact ⟨rfl, rfl⟩
      a := fun d e q he _ => by
        by_cases hj : d < ch.length
        · have : Chain.get (ch.map resetDeps) d = resetDeps (ch.get d) := by
            simp [Chain.get, List.getD, List.getElem?_map, List.getElem?_eq_getElem hj]
          rw [this] at he; cases he
        · rw [get_default_of_ge _ d (by simpa using hj)] at he; cases he }
  have d1 := down_foldl_DI (ti := ti) ch.length 0 (ch.map resetDeps, ([] : IMap)) d0 (fun e he => by cases he)
  rw [← List.range_eq_range'] at d1
  have p := up_foldl_usedByOut ti ch.length (List.range ch.length).reverse
    (((List.range ch.length).foldl (downStep ti initPos) (ch.map resetDeps, ([] : IMap))).1, ([] : IMap))
  intro d e q he hq
  have hpd : _ = _ := p d
  simp only [] at hpd
  rw [hpd] at he
  have := d1.a d e q he hq
  rw [(hsf.2 q).2.2.1]
  exact this

end Nject
