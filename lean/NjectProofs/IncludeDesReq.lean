import NjectProofs.IncludeMono
/-
  One validation, two readings of one provider: the validity check run on a chain in which provider `d` is Desired (not
  Required) and run on the same chain with `d` Required go in lockstep until `d` is looked at while marked "cannot be
  included"; at that moment the first goes on (and leaves `d` out), the second fails with "required but ...".  So the check
  drops a Desired provider exactly when the same check with the provider Required fails.
-/
namespace Nject

/-- the same provider, Required instead of Desired or auto-desired (`wanted` is computed from the other two flags) -/
def reqF (f : IP) : IP := { f with wanted := false, c := { f.c with required := true, desired := false } }

/-- `y` is `x` with provider `d` made Required -/
def RelD (d : Nat) (x y : Chain) : Prop :=
  y.length = x.length ∧ ∀ j, y.get j = if j = d then reqF (x.get j) else x.get j

theorem RelD_upd {d : Nat} {x y : Chain} (h : RelD d x y) (i : Nat) (g : IP → IP) (hg : ∀ f, g (reqF f) = reqF (g f)) :
    RelD d (x.upd i g) (y.upd i g) := by
  refine ⟨by rw [upd_length, upd_length]; exact h.1, fun j => ?_⟩
  rw [get_upd, get_upd, h.1]
  by_cases hji : j = i ∧ i < x.length
  · rw [if_pos hji, if_pos hji, h.2 i]
    by_cases hjd : j = d
    · have hid : i = d := hji.1 ▸ hjd
      rw [if_pos hid, if_pos hjd, hg]
    · have hid : ¬ i = d := fun e => hjd (hji.1.trans e)
      rw [if_neg hid, if_neg hjd]
  · rw [if_neg hji, if_neg hji]; exact h.2 j

theorem RelD_fields {d : Nat} {x y : Chain} (h : RelD d x y) (j : Nat) :
    (y.get j).inc = (x.get j).inc ∧ (y.get j).cannot = (x.get j).cannot ∧ (y.get j).excluded = (x.get j).excluded ∧
    (j ≠ d → (y.get j).wanted = (x.get j).wanted) ∧ (y.get j).usedBy = (x.get j).usedBy ∧
    (j ≠ d → (y.get j).c = (x.get j).c) := by
  rw [h.2 j]
  by_cases hjd : j = d
  · rw [if_pos hjd]; exact ⟨rfl, rfl, rfl, fun hn => absurd hjd hn, rfl, fun hn => absurd hjd hn⟩
  · rw [if_neg hjd]; exact ⟨rfl, rfl, rfl, fun _ => rfl, rfl, fun _ => rfl⟩

theorem localCheck_reqF (ch : Chain) (f : IP) : localCheck ch (reqF f) = localCheck ch f := rfl

theorem localCheck_RelD {d : Nat} {x y : Chain} (h : RelD d x y) (j : Nat) :
    localCheck y (y.get j) = localCheck x (x.get j) := by
  have hinc : ∀ p, (y.get p).inc = (x.get p).inc := fun p => (RelD_fields h p).1
  have e1 : localCheck y (y.get j) = localCheck x (y.get j) := localCheck_congr y x (y.get j) (fun p _ => hinc p)
  rw [e1, h.2 j]
  split
  · exact localCheck_reqF x (x.get j)
  · rfl

/-- one pass, in lockstep -/
theorem checkPass_sim (b : Bool) (d : Nat) : ∀ (todo : List Nat) (x y : Chain) (seen redo : List Nat) (x' : Chain) (redo' : List Nat),
    RelD d x y → (x.get d).c.required = false → (x.get d).inc = true →
    checkPass b todo x seen redo = .ok (x', redo') →
      (∃ y', checkPass b todo y seen redo = .ok (y', redo') ∧ RelD d x' y' ∧ (x'.get d).inc = true ∧ (x'.get d).c.required = false) ∨
      (checkPass b todo y seen redo = .error .required ∧ (x'.get d).cannot = true)
  | [], x, y, seen, redo, x', redo', hrel, hreq, hinc, h => by
    simp only [checkPass] at h ⊢
    cases h
    exact Or.inl ⟨y, rfl, hrel, hinc, hreq⟩
  | i :: todo, x, y, seen, redo, x', redo', hrel, hreq, hinc, h => by
    have hf := RelD_fields hrel i
    simp only [checkPass] at h ⊢
    by_cases hseen : seen.contains i = true
    · rw [if_pos hseen] at h ⊢
      exact checkPass_sim b d todo x y seen redo x' redo' hrel hreq hinc h
    · rw [if_neg hseen] at h ⊢
      by_cases hcan : (x.get i).cannot = true
      · have hcany : (y.get i).cannot = true := by rw [hf.2.1]; exact hcan
        rw [if_pos hcan] at h
        rw [if_pos hcany]
        by_cases hid : i = d
        · -- provider d is looked at while marked: the Required reading fails here
          right
          have hry : (y.get i).c.required = true := by
            rw [hrel.2 i, if_pos hid]; rfl
          rw [if_pos hry]
          refine ⟨rfl, ?_⟩
          -- the Desired reading goes on; the mark stays
          have hrx : (x.get i).c.required = false := by rw [hid]; exact hreq
          rw [if_neg (by simp [hrx])] at h
          split at h
          · cases h
          · split at h
            · have dm := checkPass_DM b todo _ _ _ x' redo' h
              apply (dm d).2
              rw [get_upd]; split
              · exact hcan
              · rw [← hid]; exact hcan
            · have dm := checkPass_DM b todo _ _ _ x' redo' h
              exact (dm d).2 (by rw [← hid]; exact hcan)
        · have hc : (y.get i).c = (x.get i).c := hf.2.2.2.2.2 hid
          rw [hc, hf.2.2.2.1 hid, hf.2.2.1, hf.1, hf.2.2.2.2.1]
          by_cases hr : (x.get i).c.required = true
          · rw [if_pos hr] at h; cases h
          · rw [if_neg hr] at h ⊢
            split at h
            · cases h
            · rename_i hw
              rw [if_neg hw]
              split at h
              · rename_i hi
                rw [if_pos hi]
                have hrel' := RelD_upd hrel i (fun f => { f with inc := false }) (fun f => rfl)
                have hget : (x.upd i fun f => { f with inc := false }).get d = x.get d := by
                  rw [get_upd]
                  have : ¬ (d = i ∧ i < x.length) := fun hh => hid hh.1.symm
                  rw [if_neg this]
                exact checkPass_sim b d todo _ _ _ _ x' redo' hrel' (by rw [hget]; exact hreq) (by rw [hget]; exact hinc) h
              · rename_i hi
                rw [if_neg hi]
                exact checkPass_sim b d todo x y _ _ x' redo' hrel hreq hinc h
      · have hcany : ¬ (y.get i).cannot = true := by rw [hf.2.1]; exact hcan
        rw [if_neg hcan] at h
        rw [if_neg hcany, localCheck_RelD hrel i]
        split at h
        · rename_i hl
          rw [if_pos hl]
          exact checkPass_sim b d todo x y _ _ x' redo' hrel hreq hinc h
        · rename_i hl
          rw [if_neg hl]
          have hrel' := RelD_upd hrel i (fun f => { f with cannot := true }) (fun f => rfl)
          have hget : ((x.upd i fun f => { f with cannot := true }).get d).inc = (x.get d).inc ∧
              ((x.upd i fun f => { f with cannot := true }).get d).c = (x.get d).c := by
            rw [get_upd]; split
            · rename_i hh; rw [hh.1]; exact ⟨rfl, rfl⟩
            · exact ⟨rfl, rfl⟩
          exact checkPass_sim b d todo _ _ _ _ x' redo' hrel' (by rw [hget.2]; exact hreq) (by rw [hget.1]; exact hinc) h

theorem checkFlows_sim (b : Bool) (d : Nat) : ∀ (fuel : Nat) (todo : List Nat) (x y x' : Chain),
    RelD d x y → (x.get d).c.required = false → (x.get d).inc = true →
    checkFlows b fuel todo x = .ok x' →
      (∃ y', checkFlows b fuel todo y = .ok y' ∧ RelD d x' y' ∧ (x'.get d).inc = true) ∨
      (checkFlows b fuel todo y = .error .required ∧ (x'.get d).cannot = true)
  | 0, _, _, _, _, _, _, _, h => by simp [checkFlows] at h
  | fuel + 1, todo, x, y, x', hrel, hreq, hinc, h => by
    simp only [checkFlows] at h ⊢
    split at h
    · rename_i he
      rw [if_pos he]
      cases h
      exact Or.inl ⟨y, rfl, hrel, hinc⟩
    · rename_i he
      rw [if_neg he]
      split at h
      · cases h
      · rename_i x1 redo hp
        rcases checkPass_sim b d todo x y [] [] x1 redo hrel hreq hinc hp with ⟨y1, hy, hrel1, hinc1, hreq1⟩ | ⟨hy, hc⟩
        · rw [hy]
          simp only []
          exact checkFlows_sim b d fuel redo x1 y1 x' hrel1 hreq1 hinc1 h
        · rw [hy]
          simp only []
          refine Or.inr ⟨?_, ((checkFlows_DM b fuel redo x1 x' h) d).2 hc⟩
          first | rfl | trivial

theorem markAll_sim (d : Nat) : ∀ (todo : List Nat) (x y : Chain) (rem : List Nat) (x1 : Chain) (rem1 : List Nat),
    RelD d x y → (x.get d).excluded = false → markAll todo x rem = .ok (x1, rem1) →
      ∃ y1, markAll todo y rem = .ok (y1, rem1) ∧ RelD d x1 y1 ∧ (x1.get d).excluded = false ∧ (x1.get d).c = (x.get d).c ∧
        (d ∈ todo → d < x.length → (x1.get d).inc = true) ∧ ((x.get d).inc = true → (x1.get d).inc = true)
  | [], x, y, rem, x1, rem1, hrel, hx, h => by
    simp only [markAll] at h ⊢
    cases h
    exact ⟨y, rfl, hrel, hx, rfl, fun hm => (by cases hm), id⟩
  | i :: rest, x, y, rem, x1, rem1, hrel, hx, h => by
    have hf := RelD_fields hrel i
    simp only [markAll] at h ⊢
    rw [hf.2.2.1]
    by_cases hex : (x.get i).excluded = true
    · have hid : i ≠ d := by intro e; rw [e] at hex; rw [hx] at hex; cases hex
      rw [if_neg (by simp [hex])] at h ⊢
      rw [hf.2.2.2.2.2 hid]
      split at h
      · cases h
      · rename_i hr
        rw [if_neg hr]
        have hrel' := RelD_upd hrel i (fun f => { f with cannot := true, inc := false }) (fun f => rfl)
        have hget : (x.upd i fun f => { f with cannot := true, inc := false }).get d = x.get d := by
          rw [get_upd]
          have : ¬ (d = i ∧ i < x.length) := fun hh => hid hh.1.symm
          rw [if_neg this]
        obtain ⟨y1, hy, r1, r2, r3, r4, r5⟩ := markAll_sim d rest _ _ rem x1 rem1 hrel' (by rw [hget]; exact hx) h
        refine ⟨y1, hy, r1, r2, by rw [r3, hget], fun hm hl => ?_, fun hi => r5 (by rw [hget]; exact hi)⟩
        rcases List.mem_cons.mp hm with e | e
        · exact absurd e.symm hid
        · exact r4 e (by rw [upd_length]; exact hl)
    · have hex' : (x.get i).excluded = false := by simpa using hex
      rw [if_pos (by simp [hex'])] at h ⊢
      have hrel' := RelD_upd hrel i (fun f => { f with inc := true, cannot := false }) (fun f => rfl)
      have hget : ((x.upd i fun f => { f with inc := true, cannot := false }).get d).excluded = (x.get d).excluded ∧
          ((x.upd i fun f => { f with inc := true, cannot := false }).get d).c = (x.get d).c ∧
          ((x.get d).inc = true → ((x.upd i fun f => { f with inc := true, cannot := false }).get d).inc = true) ∧
          (i = d → d < x.length → ((x.upd i fun f => { f with inc := true, cannot := false }).get d).inc = true) := by
        rw [get_upd]
        by_cases hh : d = i ∧ i < x.length
        · rw [if_pos hh, hh.1]; exact ⟨rfl, rfl, fun _ => rfl, fun _ _ => rfl⟩
        · rw [if_neg hh]
          exact ⟨rfl, rfl, id, fun e hl => absurd ⟨e.symm, e ▸ hl⟩ hh⟩
      obtain ⟨y1, hy, r1, r2, r3, r4, r5⟩ := markAll_sim d rest _ _ (rem ++ [i]) x1 rem1 hrel' (by rw [hget.1]; exact hx) h
      refine ⟨y1, hy, r1, r2, by rw [r3, hget.2.1], fun hm hl => ?_, fun hi => r5 (hget.2.2.1 hi)⟩
      rcases List.mem_cons.mp hm with e | e
      · exact r5 (hget.2.2.2 e.symm hl)
      · exact r4 e (by rw [upd_length]; exact hl)

/-- **the validity check drops a Desired provider exactly when the same check with the provider Required fails** -/
theorem validate_desired_vs_required (b : Bool) (d : Nat) (x y x' : Chain) (hrel : RelD d x y) (hs : Sym x)
    (hd : d < x.length) (hreq : (x.get d).c.required = false) (hx : (x.get d).excluded = false)
    (h : validate b x = .ok x') :
    ((x'.get d).cannot = false ∧ (x'.get d).inc = true ∧ ∃ y', validate b y = .ok y' ∧ RelD d x' y') ∨
    ((x'.get d).cannot = true ∧ validate b y = .error .required) := by
  have hfix := (validate_fix b x x' h hs).2
  unfold validate at h ⊢
  rw [hrel.1]
  split at h
  · cases h
  · rename_i x1 rem hm
    obtain ⟨y1, hy, r1, _, r3, r4, _⟩ := markAll_sim d _ x y [] x1 rem hrel hx hm
    rw [hy]
    simp only []
    have hinc1 : (x1.get d).inc = true := r4 (by simpa using hd) hd
    have hl : y1.length = x1.length := r1.1
    rw [hl]
    rcases checkFlows_sim b d _ rem x1 y1 x' r1 (by rw [r3]; exact hreq) hinc1 h with ⟨y', hy', rel', hinc'⟩ | ⟨hy', hc⟩
    · left
      exact ⟨(hfix d hinc').1, hinc', y', hy', rel'⟩
    · right
      exact ⟨hc, hy'⟩

end Nject
