import NjectProofs.IncludeDesReq
import NjectProofs.IncludeSupply2
/-
  The flow computation does not look at the Required / Desired flags: `providesReturns` run on a chain and on the same chain
  with provider `d` made Required gives the same records, provider by provider (relation `RelD`).
-/
namespace Nject

/-- everything the flow computation reads is the same in both chains -/
theorem RelD_reads {d : Nat} {x y : Chain} (h : RelD d x y) (p : Nat) :
    (y.get p).c.loose = (x.get p).c.loose ∧ (y.get p).c.inp = (x.get p).c.inp ∧ (y.get p).c.out = (x.get p).c.out ∧
    (y.get p).c.ret = (x.get p).c.ret ∧ (y.get p).c.recv = (x.get p).c.recv ∧ (y.get p).c.byp = (x.get p).c.byp ∧
    (y.get p).c.synthetic = (x.get p).c.synthetic ∧ (y.get p).c.cls = (x.get p).c.cls ∧
    (y.get p).cannot = (x.get p).cannot ∧ (y.get p).mcOut = (x.get p).mcOut ∧ (y.get p).mcRet = (x.get p).mcRet := by
  rw [h.2 p]
  split
  · exact ⟨rfl, rfl, rfl, rfl, rfl, rfl, rfl, rfl, rfl, rfl, rfl⟩
  · exact ⟨rfl, rfl, rfl, rfl, rfl, rfl, rfl, rfl, rfl, rfl, rfl⟩

theorem RelD_ite {d : Nat} {a1 a2 b1 b2 : Chain} {c1 c2 : Prop} [Decidable c1] [Decidable c2] (hc : c1 ↔ c2)
    (h1 : RelD d a1 b1) (h2 : RelD d a2 b2) : RelD d (if c1 then a1 else a2) (if c2 then b1 else b2) := by
  by_cases h : c1
  · rw [if_pos h, if_pos (hc.mp h)]; exact h1
  · rw [if_neg h, if_neg (fun hh => h (hc.mpr hh))]; exact h2

theorem depStep_RelD {d : Nat} {x y : Chain} (h : RelD d x y) (param : Param) (i : Nat) (t : Ty) (d' : Nat) :
    RelD d (depStep param i t x d') (depStep param i t y d') := by
  cases param with
  | inp =>
    unfold depStep
    simp only []
    have h1 := RelD_upd h i (fun f => { f with usesIn := appendAt f.usesIn t d', uses := f.uses ++ [d'] }) (fun f => rfl)
    have h2 := RelD_upd h1 d' (fun g => { g with usedBy := g.usedBy ++ [i], usedByOut := appendAt g.usedByOut t i }) (fun f => rfl)
    have h3 := RelD_upd h2 i (fun f => { f with usedBy := f.usedBy ++ [d'] }) (fun f => rfl)
    have r := (RelD_reads h2 d').2.2.2.2.2.2.2.2.2.1
    refine RelD_ite ?_ h3 h2
    exact Iff.of_eq (congrArg (fun b => b = true) r.symm)
  | byp =>
    unfold depStep
    simp only []
    have h1 := RelD_upd h i (fun f => { f with usesByp := appendAt f.usesByp t d', uses := f.uses ++ [d'] }) (fun f => rfl)
    have h2 := RelD_upd h1 d' (fun g => { g with usedBy := g.usedBy ++ [i], usedByOut := appendAt g.usedByOut t i }) (fun f => rfl)
    have h3 := RelD_upd h2 i (fun f => { f with usedBy := f.usedBy ++ [d'] }) (fun f => rfl)
    have r := (RelD_reads h2 d').2.2.2.2.2.2.2.2.2.1
    refine RelD_ite ?_ h3 h2
    exact Iff.of_eq (congrArg (fun b => b = true) r.symm)
  | recv =>
    unfold depStep
    simp only []
    have h1 := RelD_upd h i (fun f => { f with usesRecv := appendAt f.usesRecv t d', uses := f.uses ++ [d'] }) (fun f => rfl)
    have h2 := RelD_upd h1 d' (fun g => { g with usedBy := g.usedBy ++ [i], usedByRet := appendAt g.usedByRet t i }) (fun f => rfl)
    have h3 := RelD_upd h2 i (fun f => { f with usedBy := f.usedBy ++ [d'] }) (fun f => rfl)
    have r := (RelD_reads h2 d').2.2.2.2.2.2.2.2.2.2
    refine RelD_ite ?_ h3 h2
    exact Iff.of_eq (congrArg (fun b => b = true) r.symm)

theorem deps_foldl_RelD {d : Nat} (param : Param) (i : Nat) (t : Ty) : ∀ (deps : List Nat) (x y : Chain), RelD d x y →
    RelD d (deps.foldl (depStep param i t) x) (deps.foldl (depStep param i t) y)
  | [], _, _, h => h
  | d' :: deps, x, y, h => by
    simp only [List.foldl_cons]
    exact deps_foldl_RelD param i t deps _ _ (depStep_RelD h param i t d')

theorem loose_RelD {d : Nat} {x y : Chain} (h : RelD d x y) :
    (fun p => (y.get p).c.loose) = (fun p => (x.get p).c.loose) := by
  funext p; exact (RelD_reads h p).1

theorem typeStep_RelD {d : Nat} {x y : Chain} (h : RelD d x y) (ti : TyInfo) (avail : IMap) (param : Param) (i : Nat) (t : Ty) :
    RelD d (typeStep ti avail param i x t) (typeStep ti avail param i y t) := by
  unfold typeStep
  rw [loose_RelD h]
  cases bestMatch ti (fun p => (x.get p).c.loose) avail t with
  | none =>
    simp only []
    cases param
    · exact RelD_upd h i (errStep .inp t) (fun f => rfl)
    · exact RelD_upd h i (errStep .recv t) (fun f => rfl)
    · exact RelD_upd h i (errStep .byp t) (fun f => rfl)
  | some r =>
    obtain ⟨found, deps⟩ := r
    simp only []
    apply deps_foldl_RelD
    cases param
    · exact RelD_upd h i (rmapStep .inp t found) (fun f => rfl)
    · exact RelD_upd h i (rmapStep .recv t found) (fun f => rfl)
    · exact RelD_upd h i (rmapStep .byp t found) (fun f => rfl)

theorem types_foldl_RelD {d : Nat} (ti : TyInfo) (avail : IMap) (param : Param) (i : Nat) : ∀ (l : List Ty) (x y : Chain), RelD d x y →
    RelD d (l.foldl (typeStep ti avail param i) x) (l.foldl (typeStep ti avail param i) y)
  | [], _, _, h => h
  | t :: l, x, y, h => by
    simp only [List.foldl_cons]
    exact types_foldl_RelD ti avail param i l _ _ (typeStep_RelD h ti avail param i t)

theorem requireParams_RelD {d : Nat} {x y : Chain} (h : RelD d x y) (ti : TyInfo) (i : Nat) (avail : IMap) (param : Param) :
    RelD d (requireParams ti x i avail param) (requireParams ti y i avail param) := by
  rw [requireParams_eq, requireParams_eq]
  have hflow : flowOfParam (y.get i) param = flowOfParam (x.get i) param := by
    have r := RelD_reads h i
    cases param
    · exact r.2.1
    · exact r.2.2.2.2.1
    · exact r.2.2.2.2.2.1
  rw [hflow]
  apply types_foldl_RelD
  cases param
  · exact RelD_upd h i (resetStep .inp) (fun f => rfl)
  · exact RelD_upd h i (resetStep .recv) (fun f => rfl)
  · exact RelD_upd h i (resetStep .byp) (fun f => rfl)

theorem provideParams_RelD {d : Nat} {x y : Chain} (h : RelD d x y) (i : Nat) (avail : IMap) (down : Bool) (layer : Nat) :
    RelD d (provideParams x i avail down layer).1 (provideParams y i avail down layer).1 ∧
    (provideParams y i avail down layer).2 = (provideParams x i avail down layer).2 := by
  unfold provideParams
  simp only []
  have r := RelD_reads h i
  refine ⟨?_, ?_⟩
  · cases down
    · exact RelD_upd h i (fun f => if false = true then { f with usedByOut := [] } else { f with usedByRet := [] }) (fun f => rfl)
    · exact RelD_upd h i (fun f => if true = true then { f with usedByOut := [] } else { f with usedByRet := [] }) (fun f => rfl)
  · rw [r.2.2.1, r.2.2.2.1, r.2.2.2.2.2.2.1]

theorem downStep_RelD {d : Nat} {x y : Chain} (h : RelD d x y) (ti : TyInfo) (initPos : Option Nat) (avail : IMap) (i : Nat) :
    RelD d (downStep ti initPos (x, avail) i).1 (downStep ti initPos (y, avail) i).1 ∧
    (downStep ti initPos (y, avail) i).2 = (downStep ti initPos (x, avail) i).2 := by
  unfold downStep
  simp only []
  have r := RelD_reads h i
  rw [r.2.2.2.2.2.2.2.2.1]
  split
  · exact ⟨h, rfl⟩
  · have tail : ∀ (c1 c2 : Chain), RelD d c1 c2 →
        RelD d (provideParams (requireParams ti c1 i avail .inp) i avail true (i + 2)).1
          (provideParams (requireParams ti c2 i avail .inp) i avail true (i + 2)).1 ∧
        (provideParams (requireParams ti c2 i avail .inp) i avail true (i + 2)).2
          = (provideParams (requireParams ti c1 i avail .inp) i avail true (i + 2)).2 :=
      fun c1 c2 hc => provideParams_RelD (requireParams_RelD hc ti i avail .inp) i avail true (i + 2)
    cases initPos with
    | none => exact tail x y h
    | some ip =>
      simp only []
      rw [r.2.2.2.2.2.2.2.1]
      split
      · apply tail
        exact requireParams_RelD (RelD_upd h ip (fun f => { f with bypassRmap := [] }) (fun f => rfl)) ti ip avail .byp
      · exact tail x y h

theorem upStep_RelD {d : Nat} {x y : Chain} (h : RelD d x y) (ti : TyInfo) (n : Nat) (avail : IMap) (i : Nat) :
    RelD d (upStep ti n (x, avail) i).1 (upStep ti n (y, avail) i).1 ∧
    (upStep ti n (y, avail) i).2 = (upStep ti n (x, avail) i).2 := by
  unfold upStep
  simp only []
  have r := RelD_reads h i
  rw [r.2.2.2.2.2.2.2.2.1]
  split
  · exact ⟨h, rfl⟩
  · exact provideParams_RelD (requireParams_RelD h ti i avail .recv) i avail false _

theorem down_foldl_RelD {d : Nat} (ti : TyInfo) (initPos : Option Nat) : ∀ (l : List Nat) (x y : Chain) (avail : IMap), RelD d x y →
    RelD d (l.foldl (downStep ti initPos) (x, avail)).1 (l.foldl (downStep ti initPos) (y, avail)).1 ∧
    (l.foldl (downStep ti initPos) (y, avail)).2 = (l.foldl (downStep ti initPos) (x, avail)).2
  | [], _, _, _, h => ⟨h, rfl⟩
  | i :: l, x, y, avail, h => by
    simp only [List.foldl_cons]
    have ⟨h1, h2⟩ := downStep_RelD h ti initPos avail i
    have e : downStep ti initPos (y, avail) i = ((downStep ti initPos (y, avail) i).1, (downStep ti initPos (x, avail) i).2) := by
      rw [← h2]
    have e2 : downStep ti initPos (x, avail) i = ((downStep ti initPos (x, avail) i).1, (downStep ti initPos (x, avail) i).2) := rfl
    rw [e, e2]
    exact down_foldl_RelD ti initPos l _ _ _ h1

theorem up_foldl_RelD {d : Nat} (ti : TyInfo) (n : Nat) : ∀ (l : List Nat) (x y : Chain) (avail : IMap), RelD d x y →
    RelD d (l.foldl (upStep ti n) (x, avail)).1 (l.foldl (upStep ti n) (y, avail)).1
  | [], _, _, _, h => h
  | i :: l, x, y, avail, h => by
    simp only [List.foldl_cons]
    have ⟨h1, h2⟩ := upStep_RelD h ti n avail i
    have e : upStep ti n (y, avail) i = ((upStep ti n (y, avail) i).1, (upStep ti n (x, avail) i).2) := by
      rw [← h2]
    have e2 : upStep ti n (x, avail) i = ((upStep ti n (x, avail) i).1, (upStep ti n (x, avail) i).2) := rfl
    rw [e, e2]
    exact up_foldl_RelD ti n l _ _ _ h1

theorem RelD_map {d : Nat} {x y : Chain} (h : RelD d x y) (g : IP → IP) (hg : ∀ f, g (reqF f) = reqF (g f)) (hd : g default = default) :
    RelD d (x.map g) (y.map g) := by
  refine ⟨by simp [h.1], fun j => ?_⟩
  have gx : ∀ (c : Chain), Chain.get (c.map g) j = g (c.get j) := by
    intro c
    by_cases hj : j < c.length
    · simp [Chain.get, List.getD, List.getElem?_map, List.getElem?_eq_getElem hj]
    · rw [get_default_of_ge _ j (by simpa using hj), get_default_of_ge c j hj, hd]
  rw [gx y, gx x, h.2 j]
  split
  · exact hg _
  · rfl

/-- **the flow computation ignores the Required / Desired flags** -/
theorem providesReturns_RelD {d : Nat} {x y : Chain} (h : RelD d x y) (ti : TyInfo) (initPos : Option Nat) :
    RelD d (providesReturns ti x initPos) (providesReturns ti y initPos) := by
  rw [providesReturns_eq, providesReturns_eq, h.1]
  have h0 : RelD d (x.map resetDeps) (y.map resetDeps) := RelD_map h resetDeps (fun f => rfl) rfl
  have ⟨h1, _⟩ := down_foldl_RelD ti initPos (List.range x.length) _ _ ([] : IMap) h0
  exact up_foldl_RelD ti x.length (List.range x.length).reverse _ _ ([] : IMap) h1

end Nject
