import NjectProofs.IncludeSupply
import NjectProofs.IncludeMarks
/-
  Completeness of the records of the downward pass: for every provider that is not marked "cannot be included" and
  every type it asks for as an input, `providesReturns` has recorded either an error (`errIn`) or a list of sources
  (`usesIn`).  With `providesReturns_supply` and the validation fixpoint this gives C01's "every input is supplied".
-/
namespace Nject

/-- the two records the argument is about -/
def IE (f : IP) : List (Ty × List Nat) × List Ty := (f.usesIn, f.errIn)

/-- the requested type `t` of provider `j` has been dealt with -/
def Cov (ch : Chain) (j : Nat) (t : Ty) : Prop := t ∈ (IE (ch.get j)).2 ∨ ∃ e ∈ (IE (ch.get j)).1, e.1 = t

theorem Cov_congr {ch ch' : Chain} {j : Nat} {t : Ty} (h : IE (ch'.get j) = IE (ch.get j)) (hc : Cov ch j t) : Cov ch' j t := by
  unfold Cov; rw [h]; exact hc

/-- the records of every provider other than `k` are unchanged -/
def PresEx (k : Nat) (ch ch' : Chain) : Prop := ∀ j, j ≠ k → IE (ch'.get j) = IE (ch.get j)

theorem PresEx_refl (k : Nat) (ch : Chain) : PresEx k ch ch := fun _ _ => rfl
theorem PresEx_trans {k : Nat} {a b c : Chain} (h1 : PresEx k a b) (h2 : PresEx k b c) : PresEx k a c :=
  fun j hj => (h2 j hj).trans (h1 j hj)
theorem PresEx_of_Pres {k : Nat} {a b : Chain} (h : Pres IE a b) : PresEx k a b := fun j _ => h j
theorem PresEx_upd (k : Nat) (ch : Chain) (g : IP → IP) : PresEx k ch (ch.upd k g) := by
  intro j hj
  rw [get_upd]
  have : ¬ (j = k ∧ k < ch.length) := fun hh => hj hh.1
  rw [if_neg this]
theorem PresEx_ite {k : Nat} {ch x y : Chain} (c : Prop) [Decidable c] (hx : PresEx k ch x) (hy : PresEx k ch y) :
    PresEx k ch (if c then x else y) := by
  split
  · exact hx
  · exact hy
theorem foldl_PresEx {β} (k : Nat) (f : Chain → β → Chain) (hf : ∀ c a, PresEx k c (f c a)) :
    ∀ (l : List β) (c : Chain), PresEx k c (l.foldl f c)
  | [], c => PresEx_refl k c
  | a :: l, c => by simp only [List.foldl_cons]; exact PresEx_trans (hf c a) (foldl_PresEx k f hf l (f c a))

/-! ### asking for inputs touches the asker's records only -/

theorem depStep_inp_PresEx (k : Nat) (t : Ty) (ch : Chain) (d : Nat) : PresEx k ch (depStep .inp k t ch d) := by
  unfold depStep
  simp only []
  apply PresEx_ite
  · refine PresEx_trans ?_ (PresEx_upd k _ _)
    refine PresEx_trans ?_ (PresEx_of_Pres (Pres_upd IE _ d _ (fun f => rfl)))
    exact PresEx_upd k _ _
  · refine PresEx_trans ?_ (PresEx_of_Pres (Pres_upd IE _ d _ (fun f => rfl)))
    exact PresEx_upd k _ _

theorem typeStep_inp_PresEx (ti : TyInfo) (avail : IMap) (k : Nat) (ch : Chain) (t : Ty) :
    PresEx k ch (typeStep ti avail .inp k ch t) := by
  unfold typeStep
  split
  · exact PresEx_upd k ch _
  · exact PresEx_trans (PresEx_upd k ch _) (foldl_PresEx k _ (fun c d => depStep_inp_PresEx k t c d) _ _)

theorem requireParams_inp_PresEx (ti : TyInfo) (ch : Chain) (k : Nat) (avail : IMap) :
    PresEx k ch (requireParams ti ch k avail .inp) := by
  rw [requireParams_eq]
  exact PresEx_trans (PresEx_upd k ch _) (foldl_PresEx k _ (fun c t => typeStep_inp_PresEx ti avail k c t) _ _)

/-! ### asking for bypass parameters or for received values touches neither record of anybody -/

theorem depStep_other_IE {param : Param} (hp : param ≠ .inp) (i : Nat) (t : Ty) (ch : Chain) (d : Nat) :
    Pres IE ch (depStep param i t ch d) := by
  cases param with
  | inp => exact absurd rfl hp
  | recv =>
    unfold depStep
    simp only []
    apply ite_Pres
    · refine Pres_trans ?_ (Pres_upd _ _ _ _ (fun f => rfl))
      refine Pres_trans ?_ (Pres_upd _ _ _ _ (fun f => rfl))
      exact Pres_upd _ _ _ _ (fun f => rfl)
    · refine Pres_trans ?_ (Pres_upd _ _ _ _ (fun f => rfl))
      exact Pres_upd _ _ _ _ (fun f => rfl)
  | byp =>
    unfold depStep
    simp only []
    apply ite_Pres
    · refine Pres_trans ?_ (Pres_upd _ _ _ _ (fun f => rfl))
      refine Pres_trans ?_ (Pres_upd _ _ _ _ (fun f => rfl))
      exact Pres_upd _ _ _ _ (fun f => rfl)
    · refine Pres_trans ?_ (Pres_upd _ _ _ _ (fun f => rfl))
      exact Pres_upd _ _ _ _ (fun f => rfl)

theorem typeStep_other_IE {param : Param} (hp : param ≠ .inp) (ti : TyInfo) (avail : IMap) (i : Nat) (ch : Chain) (t : Ty) :
    Pres IE ch (typeStep ti avail param i ch t) := by
  unfold typeStep
  split
  · exact Pres_upd _ ch i _ (fun f => by unfold errStep; cases param <;> first | exact absurd rfl hp | rfl)
  · refine Pres_trans ?_ (foldl_Pres _ _ (fun c d => depStep_other_IE hp i t c d) _ _)
    exact Pres_upd _ ch i _ (fun f => by unfold rmapStep; cases param <;> rfl)

theorem requireParams_other_IE {param : Param} (hp : param ≠ .inp) (ti : TyInfo) (ch : Chain) (i : Nat) (avail : IMap) :
    Pres IE ch (requireParams ti ch i avail param) := by
  rw [requireParams_eq]
  refine Pres_trans ?_ (foldl_Pres _ _ (fun c t => typeStep_other_IE hp ti avail i c t) _ _)
  exact Pres_upd _ ch i _ (fun f => by unfold resetStep; cases param <;> first | exact absurd rfl hp | rfl)

theorem provideParams_IE (ch : Chain) (i : Nat) (avail : IMap) (down : Bool) (layer : Nat) :
    Pres IE ch (provideParams ch i avail down layer).1 := by
  unfold provideParams
  simp only []
  exact Pres_upd _ ch i _ (fun f => by cases down <;> rfl)

theorem upStep_IE (ti : TyInfo) (n : Nat) (acc : Chain × IMap) (i : Nat) : Pres IE acc.1 (upStep ti n acc i).1 := by
  obtain ⟨ch, avail⟩ := acc
  unfold upStep
  simp only []
  split
  · exact Pres_refl _ _
  · exact Pres_trans (requireParams_other_IE (by simp) ti ch i avail) (provideParams_IE _ i avail false _)

theorem up_foldl_IE (ti : TyInfo) (n : Nat) : ∀ (l : List Nat) (acc : Chain × IMap), Pres IE acc.1 (l.foldl (upStep ti n) acc).1
  | [], acc => Pres_refl _ _
  | i :: l, acc => by
    simp only [List.foldl_cons]
    exact Pres_trans (upStep_IE ti n acc i) (up_foldl_IE ti n l _)

/-- the downward step of provider `i` leaves the records of every other provider alone -/
theorem downStep_PresEx (ti : TyInfo) (initPos : Option Nat) (acc : Chain × IMap) (i : Nat) :
    PresEx i acc.1 (downStep ti initPos acc i).1 := by
  obtain ⟨ch, avail⟩ := acc
  unfold downStep
  simp only []
  split
  · exact PresEx_refl _ _
  · have tail : ∀ c1 : Chain, PresEx i c1 (provideParams (requireParams ti c1 i avail .inp) i avail true (i + 2)).1 :=
      fun c1 => PresEx_trans (requireParams_inp_PresEx ti c1 i avail) (PresEx_of_Pres (provideParams_IE _ i avail true _))
    cases initPos with
    | none => exact tail ch
    | some ip =>
      simp only []
      split
      · refine PresEx_trans ?_ (tail _)
        refine PresEx_of_Pres (Pres_trans (Pres_upd IE ch ip (fun f => { f with bypassRmap := [] }) (fun f => rfl))
          (requireParams_other_IE (param := .byp) (by simp) ti (ch.upd ip fun f => { f with bypassRmap := [] }) ip avail))
      · exact tail ch

/-! ### the asker's own records -/

theorem appendAt_key_self (m : List (Ty × List Nat)) (t : Ty) (v : Nat) : ∃ e ∈ appendAt m t v, e.1 = t := by
  unfold appendAt
  split
  · rename_i hany
    obtain ⟨e, he, hk⟩ := List.any_eq_true.mp hany
    exact ⟨(t, e.2 ++ [v]), List.mem_map.mpr ⟨e, he, by simp [hk]⟩, rfl⟩
  · exact ⟨(t, [v]), by simp, rfl⟩

theorem appendAt_key_mono (m : List (Ty × List Nat)) (t : Ty) (v : Nat) {k : Ty} (h : ∃ e ∈ m, e.1 = k) :
    ∃ e ∈ appendAt m t v, e.1 = k := by
  obtain ⟨e, he, hk⟩ := h
  unfold appendAt
  split
  · by_cases hkt : e.1 == t
    · exact ⟨(t, e.2 ++ [v]), List.mem_map.mpr ⟨e, he, by simp [hkt]⟩, by
        have : e.1 = t := by simpa using hkt
        rw [← hk, this]⟩
    · exact ⟨e, List.mem_map.mpr ⟨e, he, by simp [hkt]⟩, hk⟩
  · exact ⟨e, List.mem_append_left _ he, hk⟩

theorem ite_at {α} {x y : Chain} {j : Nat} {v : α} {φ : IP → α} (c : Prop) [Decidable c]
    (hx : φ (x.get j) = v) (hy : φ (y.get j) = v) : φ ((if c then x else y).get j) = v := by
  split
  · exact hx
  · exact hy

/-- the asker's records after one dependency -/
theorem depStep_inp_at (j : Nat) (t : Ty) (ch : Chain) (d : Nat) (hj : j < ch.length) :
    IE ((depStep .inp j t ch d).get j) = (appendAt (ch.get j).usesIn t d, (ch.get j).errIn) := by
  unfold depStep
  simp only []
  have e1 : IE ((ch.upd j fun f => { f with usesIn := appendAt f.usesIn t d, uses := f.uses ++ [d] }).get j)
      = (appendAt (ch.get j).usesIn t d, (ch.get j).errIn) := by
    rw [get_upd_same ch j _ hj]; rfl
  have e2 := Pres_upd IE (ch.upd j fun f => { f with usesIn := appendAt f.usesIn t d, uses := f.uses ++ [d] }) d
    (fun g => { g with usedBy := g.usedBy ++ [j], usedByOut := appendAt g.usedByOut t j }) (fun f => rfl) j
  have e3 := Pres_upd IE ((ch.upd j fun f => { f with usesIn := appendAt f.usesIn t d, uses := f.uses ++ [d] }).upd d
    (fun g => { g with usedBy := g.usedBy ++ [j], usedByOut := appendAt g.usedByOut t j })) j
    (fun f => { f with usedBy := f.usedBy ++ [d] }) (fun f => rfl) j
  exact ite_at _ (e3.trans (e2.trans e1)) (e2.trans e1)

theorem deps_cov (j : Nat) (t : Ty) : ∀ (deps : List Nat) (c : Chain), j < c.length →
    (∀ t0, Cov c j t0 → Cov (deps.foldl (depStep .inp j t) c) j t0) ∧ (deps ≠ [] → Cov (deps.foldl (depStep .inp j t) c) j t)
  | [], c, _ => ⟨fun _ h => h, fun h => absurd rfl h⟩
  | d :: deps, c, hj => by
    simp only [List.foldl_cons]
    have hat := depStep_inp_at j t c d hj
    have hl : j < (depStep .inp j t c d).length := by rw [depStep_length]; exact hj
    have ⟨ih1, _⟩ := deps_cov j t deps (depStep .inp j t c d) hl
    have step1 : ∀ t0, Cov c j t0 → Cov (depStep .inp j t c d) j t0 := by
      intro t0 h0
      unfold Cov at h0 ⊢
      rw [hat]
      rcases h0 with h0 | h0
      · exact Or.inl h0
      · exact Or.inr (appendAt_key_mono _ t d h0)
    have step2 : Cov (depStep .inp j t c d) j t := by
      unfold Cov
      rw [hat]
      exact Or.inr (appendAt_key_self _ t d)
    exact ⟨fun t0 h0 => ih1 t0 (step1 t0 h0), fun _ => ih1 t step2⟩

theorem typeStep_length' (ti : TyInfo) (avail : IMap) (param : Param) (i : Nat) (ch : Chain) (t : Ty) :
    (typeStep ti avail param i ch t).length = ch.length := (typeStep_SF ti avail param i ch t).1

theorem typeStep_cov {ti : TyInfo} {O : Nat → List Ty} {avail : IMap} (j : Nat) (ch : Chain) (t : Ty) (hj : j < ch.length)
    (hav : AvS O j avail) :
    (∀ t0, Cov ch j t0 → Cov (typeStep ti avail .inp j ch t) j t0) ∧ Cov (typeStep ti avail .inp j ch t) j t := by
  unfold typeStep
  cases hb : bestMatch ti (fun p => (ch.get p).c.loose) avail t with
  | none =>
    simp only []
    have hat : IE ((ch.upd j (errStep .inp t)).get j) = ((ch.get j).usesIn, (ch.get j).errIn ++ [t]) := by
      rw [get_upd_same ch j _ hj]; rfl
    refine ⟨fun t0 h0 => ?_, ?_⟩
    · unfold Cov at h0 ⊢
      rw [hat]
      rcases h0 with h0 | h0
      · exact Or.inl (List.mem_append_left _ h0)
      · exact Or.inr h0
    · unfold Cov; rw [hat]; exact Or.inl (by simp)
  | some r =>
    obtain ⟨found, deps⟩ := r
    simp only []
    have hat : IE ((ch.upd j (rmapStep .inp t found)).get j) = IE (ch.get j) := by
      rw [get_upd_same ch j _ hj]; rfl
    have hl : j < (ch.upd j (rmapStep .inp t found)).length := by rw [upd_length]; exact hj
    have ⟨c1, c2⟩ := deps_cov j t deps (ch.upd j (rmapStep .inp t found)) hl
    obtain ⟨e, he, _, _, _, hne⟩ := bm_entry hb
    refine ⟨fun t0 h0 => c1 t0 (Cov_congr hat h0), c2 (hne (hav e he).2)⟩

theorem types_cov {ti : TyInfo} {O : Nat → List Ty} {avail : IMap} (j : Nat) (hav : AvS O j avail) :
    ∀ (l : List Ty) (c : Chain), j < c.length →
      (∀ t0, Cov c j t0 → Cov (l.foldl (typeStep ti avail .inp j) c) j t0) ∧ (∀ t ∈ l, Cov (l.foldl (typeStep ti avail .inp j) c) j t)
  | [], c, _ => ⟨fun _ h => h, fun t ht => by cases ht⟩
  | t :: l, c, hj => by
    simp only [List.foldl_cons]
    have ⟨s1, s2⟩ := typeStep_cov (ti := ti) j c t hj hav
    have hl : j < (typeStep ti avail .inp j c t).length := by rw [typeStep_length']; exact hj
    have ⟨ih1, ih2⟩ := types_cov (ti := ti) j hav l (typeStep ti avail .inp j c t) hl
    refine ⟨fun t0 h0 => ih1 t0 (s1 t0 h0), fun t' ht' => ?_⟩
    rcases List.mem_cons.mp ht' with e | e
    · rw [e]; exact ih1 t s2
    · exact ih2 t' e

/-- after asking, every requested input type of the asker is dealt with -/
theorem requireParams_cov {ti : TyInfo} {O : Nat → List Ty} {avail : IMap} (j : Nat) (ch : Chain) (hj : j < ch.length)
    (hav : AvS O j avail) : ∀ t ∈ (ch.get j).c.inp, t ≠ tNoType → Cov (requireParams ti ch j avail .inp) j t := by
  intro t ht hn
  rw [requireParams_eq]
  have hl : j < (ch.upd j (resetStep .inp)).length := by rw [upd_length]; exact hj
  have ⟨_, h2⟩ := types_cov (ti := ti) j hav ((flowOfParam (ch.get j) .inp).filter (· != tNoType)) (ch.upd j (resetStep .inp)) hl
  apply h2
  exact List.mem_filter.mpr ⟨ht, by simpa using hn⟩


/-- the invariant of the downward pass: providers below `lo` that are not marked have all their input types dealt with -/
structure COI (I : Nat → List Ty) (C : Nat → Bool) (lo : Nat) (ch : Chain) : Prop where
  hc : ∀ j, (ch.get j).c.inp = I j ∧ (ch.get j).cannot = C j
  a : ∀ j, j < lo → C j = false → ∀ t ∈ I j, t ≠ tNoType → Cov ch j t

theorem downStep_COI {ti : TyInfo} {O I C initPos} {acc : Chain × IMap} {i : Nat}
    (h : COI I C i acc.1) (hav : AvS O i acc.2) (hil : i < acc.1.length) :
    COI I C (i + 1) (downStep ti initPos acc i).1 := by
  have hsf := downStep_SF ti initPos acc i
  have hxf := downStep_XF ti initPos acc i
  have hpe := downStep_PresEx ti initPos acc i
  refine
    { hc := fun j => by rw [(hsf.2 j).2.2.1, (hxf.2 j).2.1]; exact h.hc j
      a := fun j hj hcj t ht hn => ?_ }
  by_cases hji : j = i
  · -- the provider of this step
    subst hji
    obtain ⟨ch, avail⟩ := acc
    have hcan : (ch.get j).cannot = false := by rw [(h.hc j).2]; exact hcj
    unfold downStep
    simp only []
    rw [if_neg (by simp [hcan])]
    have tail : ∀ c1 : Chain, j < c1.length → (c1.get j).c.inp = I j →
        Cov (provideParams (requireParams ti c1 j avail .inp) j avail true (j + 2)).1 j t := by
      intro c1 hl hI
      have := requireParams_cov (ti := ti) j c1 hl hav t (by rw [hI]; exact ht) hn
      exact Cov_congr (provideParams_IE _ j avail true _ j) this
    cases initPos with
    | none => exact tail ch hil (h.hc j).1
    | some ip =>
      simp only []
      split
      · apply tail
        · rw [(requireParams_SF ti _ ip avail .byp).1, upd_length]; exact hil
        · rw [((requireParams_SF ti _ ip avail .byp).2 j).2.2.1]
          rw [get_upd]; split
          · rename_i hc; rw [← hc.1]; exact (h.hc j).1
          · exact (h.hc j).1
      · exact tail ch hil (h.hc j).1
  · exact Cov_congr (hpe j hji) (h.a j (by omega) hcj t ht hn)

theorem down_foldl_all {ti : TyInfo} {O I C initPos} : ∀ (k lo : Nat) (acc : Chain × IMap), lo + k = acc.1.length →
    SU ti O acc.1 → AvS O lo acc.2 → COI I C lo acc.1 →
    COI I C (lo + k) (((List.range' lo k).foldl (downStep ti initPos) acc).1)
  | 0, _, _, _, _, _, h => by simpa using h
  | k + 1, lo, acc, hlen, hsu, hav, h => by
    rw [List.range'_succ]
    simp only [List.foldl_cons]
    have ⟨s1, s2⟩ := downStep_SU (ti := ti) (initPos := initPos) hsu hav
    have c1 := downStep_COI (ti := ti) (initPos := initPos) h hav (by omega)
    have hl : (downStep ti initPos acc lo).1.length = acc.1.length := (downStep_SF ti initPos acc lo).1
    have := down_foldl_all (ti := ti) (initPos := initPos) k (lo + 1) _ (by rw [hl]; omega) s1 s2 c1
    rw [show lo + (k + 1) = lo + 1 + k by omega]
    exact this

/-- **every requested input type is dealt with**: after `providesReturns`, for a provider that is not marked "cannot be
    included", every input type it asks for is either in its error list or has a list of recorded sources -/
theorem providesReturns_covered (ti : TyInfo) (ch : Chain) (initPos : Option Nat) (j : Nat)
    (hc : ((providesReturns ti ch initPos).get j).cannot = false) :
    ∀ t ∈ ((providesReturns ti ch initPos).get j).c.inp, t ≠ tNoType →
      t ∈ ((providesReturns ti ch initPos).get j).errIn ∨ ∃ e ∈ ((providesReturns ti ch initPos).get j).usesIn, e.1 = t := by
  have hsf := providesReturns_SF ti ch initPos
  have hxf := providesReturns_XF ti ch initPos
  rw [(hsf.2 j).2.2.1]
  rw [(hxf.2 j).2.1] at hc
  intro t ht hn
  by_cases hjl : j < ch.length
  · rw [providesReturns_eq]
    have hmap : ∀ k, Chain.get (ch.map resetDeps) k = if k < ch.length then resetDeps (ch.get k) else default := by
      intro k
      by_cases hk : k < ch.length
      · simp [Chain.get, List.getD, List.getElem?_map, List.getElem?_eq_getElem hk, hk]
      · rw [if_neg hk, get_default_of_ge _ k (by simpa using hk)]
    have su0 : SU ti (fun k => (ch.get k).c.out) (ch.map resetDeps) :=
      { hc := fun k => by
          have := (SF_map ch resetDeps (fun f => ⟨rfl, rfl, rfl, rfl⟩)).2 k
          rw [this.2.2.1]
        a := fun k e p he _ => by
          rw [hmap k] at he
          split at he <;> cases he }
    have co0 : COI (fun k => (ch.get k).c.inp) (fun k => (ch.get k).cannot) 0 (ch.map resetDeps) :=
      { hc := fun k => by
          have h1 := (SF_map ch resetDeps (fun f => ⟨rfl, rfl, rfl, rfl⟩)).2 k
          have h2 := (XF_map ch resetDeps (fun f => ⟨rfl, rfl, rfl, rfl⟩)).2 k
          rw [h1.2.2.1, h2.2.1]; exact ⟨rfl, rfl⟩
        a := fun k hk => by omega }
    have fin := down_foldl_all (ti := ti) (initPos := initPos) ch.length 0 (ch.map resetDeps, ([] : IMap)) (by simp)
      su0 (fun e he => by cases he) co0
    rw [← List.range_eq_range'] at fin
    have cov := fin.a j (by omega) hc t ht hn
    have up := up_foldl_IE ti ch.length (List.range ch.length).reverse
      (((List.range ch.length).foldl (downStep ti initPos) (ch.map resetDeps, ([] : IMap))).1, ([] : IMap)) j
    have := Cov_congr up cov
    exact this
  · rw [get_default_of_ge ch j hjl] at ht
    cases ht

end Nject
