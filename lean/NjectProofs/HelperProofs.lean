import Nject.Helpers
/-
  Lemmas behind C20: Curry's position maps and the struct builder's field mapping.
-/
namespace Nject

/-! ## writes into a list by position -/

/-- `for i, v := range vals { m[targets[i]] = v }` -/
def setAll {α} (m : List (Option α)) (tv : List (Nat × α)) : List (Option α) :=
  tv.foldl (fun oi pa => oi.set pa.1 (some pa.2)) m

@[simp] theorem setAll_length {α} (tv : List (Nat × α)) (m : List (Option α)) : (setAll m tv).length = m.length := by
  induction tv generalizing m with
  | nil => rfl
  | cons x xs ih => simp [setAll, List.foldl] at *; rw [ih]; simp

theorem setAll_cons {α} (x : Nat × α) (xs : List (Nat × α)) (m : List (Option α)) :
    setAll m (x :: xs) = setAll (m.set x.1 (some x.2)) xs := rfl

theorem setAll_untouched {α} (tv : List (Nat × α)) (m : List (Option α)) (i : Nat)
    (h : i ∉ tv.map Prod.fst) : (setAll m tv)[i]? = m[i]? := by
  induction tv generalizing m with
  | nil => rfl
  | cons x xs ih =>
    simp only [List.map_cons, List.mem_cons, not_or] at h
    rw [setAll_cons, ih _ h.2, List.getElem?_set_ne (Ne.symm h.1)]

theorem setAll_hit {α} (tv : List (Nat × α)) (m : List (Option α)) (i : Nat) (v : α)
    (hnd : (tv.map Prod.fst).Nodup) (hmem : (i, v) ∈ tv) (hi : i < m.length) :
    (setAll m tv)[i]? = some (some v) := by
  induction tv generalizing m with
  | nil => cases hmem
  | cons x xs ih =>
    simp only [List.map_cons, List.nodup_cons] at hnd
    rw [setAll_cons]
    rcases List.mem_cons.mp hmem with h | h
    · subst h
      rw [setAll_untouched _ _ _ hnd.1]
      simp [hi]
    · exact ih _ hnd.2 h (by simpa using hi)

/-! ## positionsOf -/

theorem positionsOf_nodup (n : List Ty) (t : Ty) : (positionsOf n t).Nodup := by
  unfold positionsOf
  exact List.Nodup.sublist List.filter_sublist List.nodup_range

theorem mem_positionsOf {n : List Ty} {t : Ty} {j : Nat} : j ∈ positionsOf n t ↔ n[j]? = some t := by
  unfold positionsOf
  simp only [List.mem_filter, List.mem_range, beq_iff_eq]
  constructor
  · exact fun h => h.2
  · intro h
    refine ⟨?_, h⟩
    exact (List.getElem?_eq_some_iff.mp h).1

theorem positionsOf_getD_mem {n : List Ty} {t : Ty} {u : Nat} (h : u < (positionsOf n t).length) :
    (positionsOf n t).getD u 0 ∈ positionsOf n t := by
  rw [List.getD_eq_getElem?_getD, List.getElem?_eq_getElem h]
  exact List.getElem_mem h

/-! ## the Curry loop invariant -/

structure CInv (n o : List Ty) (i : Nat) (s : CW) : Prop where
  used_le : ∀ t, s.used t ≤ (positionsOf n t).length
  pass_ok : ∀ j k, (j, k) ∈ s.pass → k < i ∧ ∃ t u, o[k]? = some t ∧ u < s.used t ∧ (positionsOf n t).getD u 0 = j
  pass_cov : ∀ t u, u < s.used t → ∃ k, ((positionsOf n t).getD u 0, k) ∈ s.pass
  fst_nodup : (s.pass.map Prod.fst).Nodup
  perm : (s.pass.map Prod.snd ++ s.cm).Perm (List.range i)
  cm_lt : ∀ k ∈ s.cm, k < i
  cur_eq : s.cur = s.cm.map (fun k => o.getD k 0)
  cur_nodup : s.cur.Nodup
  cur_notin : ∀ t ∈ s.cur, positionsOf n t = []

theorem CInv.init (n o : List Ty) : CInv n o 0 {} := by
  refine ⟨by intro t; exact Nat.zero_le _, ?_, ?_, ?_, ?_, ?_, rfl, ?_, ?_⟩
  · intro j k h; cases h
  · intro t u h; cases h
  · exact List.nodup_nil
  · exact List.Perm.refl _
  · intro k h; cases h
  · exact List.nodup_nil
  · intro t h; cases h

theorem getD_eq_of_getElem? {l : List Nat} {i : Nat} {t : Nat} (h : l[i]? = some t) : l.getD i 0 = t := by
  simp [List.getD_eq_getElem?_getD, h]

theorem curryStep_inv (n o : List Ty) (i : Nat) (t : Ty) (s s' : CW)
    (ht : o[i]? = some t) (h : curryStep n s i t = some s') (inv : CInv n o i s) : CInv n o (i + 1) s' := by
  unfold curryStep at h
  simp only at h
  split at h
  · -- taken from the chain
    rename_i hemp
    split at h
    · cases h
    · rename_i hnot
      cases h
      have hemp' : positionsOf n t = [] := by simpa using hemp
      have hnot' : t ∉ s.cur := by simpa using hnot
      refine ⟨inv.used_le, ?_, inv.pass_cov, inv.fst_nodup, ?_, ?_, ?_, ?_, ?_⟩
      · intro j k hm
        obtain ⟨hk, r⟩ := inv.pass_ok j k hm
        exact ⟨Nat.lt_succ_of_lt hk, r⟩
      · simp only
        rw [← List.append_assoc, List.range_succ]
        exact List.Perm.append_right _ inv.perm
      · intro k hk
        rcases List.mem_append.mp hk with hk | hk
        · exact Nat.lt_succ_of_lt (inv.cm_lt k hk)
        · simp at hk; omega
      · simp only [List.map_append, List.map_cons, List.map_nil]
        rw [← inv.cur_eq, getD_eq_of_getElem? ht]
      · exact List.nodup_append.mpr ⟨inv.cur_nodup, by simp, by
          intro a ha b hb; simp at hb; subst hb; intro hab; subst hab; exact hnot' ha⟩
      · intro x hx
        rcases List.mem_append.mp hx with hx | hx
        · exact inv.cur_notin x hx
        · simp at hx; subst hx; exact hemp'
  · rename_i hne
    split at h
    · rename_i hlt
      cases h
      have hjmem := positionsOf_getD_mem hlt
      refine ⟨?_, ?_, ?_, ?_, ?_, ?_, inv.cur_eq, inv.cur_nodup, inv.cur_notin⟩
      · intro x
        simp only
        split
        · rename_i hx; subst hx; omega
        · exact inv.used_le x
      · intro j k hm
        rcases List.mem_append.mp hm with hm | hm
        · obtain ⟨hk, t', u, h1, h2, h3⟩ := inv.pass_ok j k hm
          refine ⟨Nat.lt_succ_of_lt hk, t', u, h1, ?_, h3⟩
          simp only
          split
          · omega
          · exact h2
        · simp only [List.mem_singleton, Prod.mk.injEq] at hm
          obtain ⟨hj, hk⟩ := hm
          subst hk
          refine ⟨Nat.lt_succ_self _, t, s.used t, ht, ?_, hj.symm⟩
          simp
      · intro t' u hu
        simp only at hu
        split at hu
        · rename_i hx; subst hx
          by_cases hu' : u < s.used t'
          · obtain ⟨k, hk⟩ := inv.pass_cov t' u hu'
            exact ⟨k, List.mem_append.mpr (Or.inl hk)⟩
          · have : u = s.used t' := by omega
            subst this
            exact ⟨i, List.mem_append.mpr (Or.inr (by simp))⟩
        · obtain ⟨k, hk⟩ := inv.pass_cov t' u hu
          exact ⟨k, List.mem_append.mpr (Or.inl hk)⟩
      · simp only [List.map_append, List.map_cons, List.map_nil]
        refine List.nodup_append.mpr ⟨inv.fst_nodup, by simp, ?_⟩
        intro a ha b hb
        simp at hb; subst hb
        intro hab; subst hab
        obtain ⟨⟨j', k⟩, hm, hj'⟩ := List.mem_map.mp ha
        simp only at hj'; subst hj'
        obtain ⟨_, t', u, _, h2, h3⟩ := inv.pass_ok _ k hm
        -- the position belongs to type t' and to type t
        have hu : u < (positionsOf n t').length := Nat.lt_of_lt_of_le h2 (inv.used_le t')
        have m1 : (positionsOf n t').getD u 0 ∈ positionsOf n t' := positionsOf_getD_mem hu
        rw [h3] at m1
        have e1 := mem_positionsOf.mp m1
        have e2 := mem_positionsOf.mp hjmem
        rw [List.getD_eq_getElem?_getD] at e2
        rw [e1] at e2
        have htt : t' = t := by simpa using e2
        subst htt
        -- same list, indexes u < used t: nodup
        have := (List.getD_inj (fallback := 0) hu hlt (positionsOf_nodup n t')).mp (by rw [h3, List.getD_eq_getElem?_getD])
        omega
      · simp only [List.map_append, List.map_cons, List.map_nil]
        rw [List.range_succ]
        have : (List.map Prod.snd s.pass ++ [i] ++ s.cm).Perm ((List.map Prod.snd s.pass ++ s.cm) ++ [i]) := by
          rw [List.append_assoc, List.append_assoc]
          exact List.Perm.append_left _ List.perm_append_comm
        exact this.trans (List.Perm.append_right _ inv.perm)
      · intro k hk; exact Nat.lt_succ_of_lt (inv.cm_lt k hk)
    · cases h

theorem curryWalk_inv (n o : List Ty) : ∀ (rest : List Ty) (i : Nat) (s s' : CW),
    i ≤ o.length → o.drop i = rest → curryWalk n rest i s = some s' → CInv n o i s → CInv n o o.length s'
  | [], i, s, s', hi, hd, h, inv => by
    simp only [curryWalk, Option.some.injEq] at h; subst h
    have hlen : o.length ≤ i := by simpa using List.drop_eq_nil_iff.mp hd
    have : i = o.length := Nat.le_antisymm hi hlen
    subst this; exact inv
  | t :: rest, i, s, s', _, hd, h, inv => by
    simp only [curryWalk] at h
    split at h
    · cases h
    · rename_i s1 hs1
      have ht : o[i]? = some t := by
        have := congrArg (·[0]?) hd
        simpa using this
      have hd' : o.drop (i + 1) = rest := by
        have := congrArg List.tail hd
        simpa using this
      have hi' : i + 1 ≤ o.length := (List.getElem?_eq_some_iff.mp ht).1
      exact curryWalk_inv n o rest (i + 1) s1 s' hi' hd' h (curryStep_inv n o i t s s1 ht hs1 inv)

end Nject

namespace Nject

/-! ## passMap -/

theorem eq_of_nodup_map {α β} (f : α → β) : ∀ (l : List α) (a b : α), (l.map f).Nodup → a ∈ l → b ∈ l → f a = f b → a = b
  | [], a, _, _, ha, _, _ => by cases ha
  | x :: xs, a, b, hnd, ha, hb, hab => by
    simp only [List.map_cons, List.nodup_cons, List.mem_map, not_exists, not_and] at hnd
    rcases List.mem_cons.mp ha with ha' | ha' <;> rcases List.mem_cons.mp hb with hb' | hb'
    · rw [ha', hb']
    · subst ha'; exact absurd hab.symm (hnd.1 b hb')
    · subst hb'; exact absurd hab (hnd.1 a ha')
    · exact eq_of_nodup_map f xs a b hnd.2 ha' hb' hab

def setAllP {α} (m : List α) (tv : List (Nat × α)) : List α := tv.foldl (fun m p => m.set p.1 p.2) m

@[simp] theorem setAllP_length {α} (tv : List (Nat × α)) (m : List α) : (setAllP m tv).length = m.length := by
  induction tv generalizing m with
  | nil => rfl
  | cons x xs ih => simp [setAllP, List.foldl] at *; rw [ih]; simp

theorem setAllP_untouched {α} (tv : List (Nat × α)) (m : List α) (i : Nat)
    (h : i ∉ tv.map Prod.fst) : (setAllP m tv)[i]? = m[i]? := by
  induction tv generalizing m with
  | nil => rfl
  | cons x xs ih =>
    simp only [List.map_cons, List.mem_cons, not_or] at h
    show (setAllP (m.set x.1 x.2) xs)[i]? = _
    rw [ih _ h.2, List.getElem?_set_ne (Ne.symm h.1)]

theorem setAllP_hit {α} (tv : List (Nat × α)) (m : List α) (i : Nat) (v : α)
    (hnd : (tv.map Prod.fst).Nodup) (hmem : (i, v) ∈ tv) (hi : i < m.length) :
    (setAllP m tv)[i]? = some v := by
  induction tv generalizing m with
  | nil => cases hmem
  | cons x xs ih =>
    simp only [List.map_cons, List.nodup_cons] at hnd
    show (setAllP (m.set x.1 x.2) xs)[i]? = _
    rcases List.mem_cons.mp hmem with h | h
    · subst h
      rw [setAllP_untouched _ _ _ hnd.1]
      simp [hi]
    · exact ih _ hnd.2 h (by simpa using hi)

theorem mkPassMap_length (len : Nat) (pass : List (Nat × Nat)) : (mkPassMap len pass).length = len := by
  show (setAllP _ pass).length = len
  simp

theorem mkPassMap_get (len : Nat) (pass : List (Nat × Nat)) (j k : Nat)
    (hnd : (pass.map Prod.fst).Nodup) (hmem : (j, k) ∈ pass) (hj : j < len) :
    (mkPassMap len pass)[j]? = some k :=
  setAllP_hit pass _ j k hnd hmem (by simpa using hj)

/-! ## what a successful Curry establishes -/

structure CurryOK (o n : List Ty) (m : CurryMaps) (s : CW) : Prop where
  inv : CInv n o o.length s
  full : ∀ t ∈ n, (positionsOf n t).length ≤ s.used t
  maps : m = { passMap := mkPassMap n.length s.pass, curryMap := s.cm, curried := s.cur }
  fewer : n.length < o.length

theorem curryModel_ok {isFunc : Ty → Bool} {o oo n no : List Ty} {m : CurryMaps}
    (h : curryModel isFunc o oo n no = some m) : oo = no ∧ ∃ s, CurryOK o n m s := by
  unfold curryModel at h
  split at h
  · cases h
  · rename_i hout
    split at h
    · cases h
    · rename_i hlen
      split at h
      · cases h
      · rename_i s hs
        split at h
        · cases h
        · rename_i hfull
          split at h
          · cases h
          · cases h
            refine ⟨by simpa using hout, s, ?_, ?_, rfl, by omega⟩
            · exact curryWalk_inv n o o 0 {} s (Nat.zero_le _) rfl hs (CInv.init n o)
            · intro t ht
              have := hfull
              simp only [List.any_eq_true, not_exists, not_and, decide_eq_true_eq] at this
              exact Nat.le_of_not_lt (this t ht)

/-- every position of the curried function got an entry -/
theorem CurryOK.total {o n m s} (ok : CurryOK o n m s) (j : Nat) (hj : j < n.length) :
    ∃ k, (j, k) ∈ s.pass := by
  have hm : j ∈ positionsOf n n[j] := mem_positionsOf.mpr (List.getElem?_eq_getElem hj)
  obtain ⟨u, hu, hju⟩ := List.mem_iff_getElem.mp hm
  have hfull := ok.full n[j] (List.getElem_mem hj)
  obtain ⟨k, hk⟩ := ok.inv.pass_cov n[j] u (Nat.lt_of_lt_of_le hu hfull)
  refine ⟨k, ?_⟩
  have : (positionsOf n n[j]).getD u 0 = j := by
    rw [List.getD_eq_getElem?_getD, List.getElem?_eq_getElem hu]; simpa using hju
  rw [this] at hk; exact hk

theorem CurryOK.fst_lt {o n m s} (ok : CurryOK o n m s) (j k : Nat) (h : (j, k) ∈ s.pass) :
    j < n.length ∧ ∃ t, o[k]? = some t ∧ n[j]? = some t := by
  obtain ⟨_, t, u, h1, h2, h3⟩ := ok.inv.pass_ok j k h
  have hu : u < (positionsOf n t).length := Nat.lt_of_lt_of_le h2 (ok.inv.used_le t)
  have m1 := positionsOf_getD_mem hu
  rw [h3] at m1
  have e := mem_positionsOf.mp m1
  exact ⟨(List.getElem?_eq_some_iff.mp e).1, t, h1, e⟩

theorem CurryOK.passMap_get {o n m s} (ok : CurryOK o n m s) (j k : Nat) (h : (j, k) ∈ s.pass) :
    m.passMap[j]? = some k := by
  rw [ok.maps]
  exact mkPassMap_get _ _ j k ok.inv.fst_nodup h (ok.fst_lt j k h).1

theorem CurryOK.passMap_length {o n m s} (ok : CurryOK o n m s) : m.passMap.length = n.length := by
  rw [ok.maps]; exact mkPassMap_length _ _

theorem CurryOK.mem_passMap {o n m s} (ok : CurryOK o n m s) (x : Nat) :
    x ∈ m.passMap ↔ x ∈ s.pass.map Prod.snd := by
  constructor
  · intro hx
    obtain ⟨j, hj, hjx⟩ := List.mem_iff_getElem.mp hx
    rw [ok.passMap_length] at hj
    obtain ⟨k, hk⟩ := ok.total j hj
    have := ok.passMap_get j k hk
    rw [List.getElem?_eq_getElem (by rw [ok.passMap_length]; exact hj)] at this
    have : x = k := by rw [← hjx]; simpa using this
    subst this
    exact List.mem_map.mpr ⟨(j, x), hk, rfl⟩
  · intro hx
    obtain ⟨⟨j, k⟩, hjk, hk⟩ := List.mem_map.mp hx
    simp only at hk; subst hk
    exact List.mem_of_getElem? (ok.passMap_get j k hjk)

theorem CurryOK.snd_nodup {o n m s} (ok : CurryOK o n m s) : (s.pass.map Prod.snd ++ s.cm).Nodup :=
  ok.inv.perm.nodup_iff.mpr List.nodup_range

theorem CurryOK.passMap_nodup {o n m s} (ok : CurryOK o n m s) : m.passMap.Nodup := by
  rw [List.Nodup, List.pairwise_iff_getElem]
  intro i j hi hj hij heq
  have hi' : i < n.length := by rw [ok.passMap_length] at hi; exact hi
  have hj' : j < n.length := by rw [ok.passMap_length] at hj; exact hj
  obtain ⟨ki, hki⟩ := ok.total i hi'
  obtain ⟨kj, hkj⟩ := ok.total j hj'
  have gi := ok.passMap_get i ki hki
  have gj := ok.passMap_get j kj hkj
  rw [List.getElem?_eq_getElem hi] at gi
  rw [List.getElem?_eq_getElem hj] at gj
  have : ki = kj := by
    have a : m.passMap[i] = ki := by simpa using gi
    have b : m.passMap[j] = kj := by simpa using gj
    rw [← a, ← b]; exact heq
  subst this
  -- two entries with the same original position: the same entry
  have nd : (s.pass.map Prod.snd).Nodup := (List.nodup_append.mp ok.snd_nodup).1
  have := eq_of_nodup_map Prod.snd s.pass _ _ nd hki hkj rfl
  simp at this
  omega

/-- the parameters of the original function are split between the curried function's arguments
    and the values injected from the chain: each has exactly one source -/
theorem CurryOK.partition {o n m s} (ok : CurryOK o n m s) :
    (m.passMap ++ m.curryMap).Perm (List.range o.length) := by
  have hcm : m.curryMap = s.cm := by rw [ok.maps]
  have nd0 := ok.snd_nodup
  rw [List.nodup_append] at nd0
  refine (List.perm_ext_iff_of_nodup ?_ List.nodup_range).mpr ?_
  · rw [hcm]
    refine List.nodup_append.mpr ⟨ok.passMap_nodup, nd0.2.1, ?_⟩
    intro a ha b hb
    exact nd0.2.2 a ((ok.mem_passMap a).mp ha) b hb
  · intro a
    rw [hcm, List.mem_append, ok.mem_passMap a, ← List.mem_append]
    exact ok.inv.perm.mem_iff

end Nject

namespace Nject

theorem zip_getElem_mem {α β} (a : List α) (b : List β) (i : Nat) (ha : i < a.length) (hb : i < b.length) :
    (a[i], b[i]) ∈ a.zip b :=
  List.mem_iff_getElem.mpr ⟨i, by simp [List.length_zip]; omega, by simp⟩

theorem curriedCall_eq {α} (m : CurryMaps) (numIn : Nat) (args injected : List α) :
    curriedCall m numIn args injected
      = setAll (setAll (List.replicate numIn none) (m.passMap.zip args)) (m.curryMap.zip injected) := rfl

/-- the argument list the original function is called with -/
theorem CurryOK.call {α} {o n m s} (ok : CurryOK o n m s) (args injected : List α)
    (ha : args.length = n.length) (hc : injected.length = m.curryMap.length) :
    (curriedCall m o.length args injected).length = o.length
    ∧ (∀ j (hj : j < m.passMap.length) (hj' : j < args.length),
        (curriedCall m o.length args injected)[m.passMap[j]]? = some (some args[j]))
    ∧ (∀ c (hc1 : c < m.curryMap.length) (hc2 : c < injected.length),
        (curriedCall m o.length args injected)[m.curryMap[c]]? = some (some injected[c]))
    ∧ (∀ i, i < o.length → ∃ v, (curriedCall m o.length args injected)[i]? = some (some v)) := by
  have hperm := ok.partition
  have hnd : (m.passMap ++ m.curryMap).Nodup := hperm.nodup_iff.mpr List.nodup_range
  have hlt : ∀ x ∈ m.passMap ++ m.curryMap, x < o.length := fun x hx => List.mem_range.mp (hperm.subset hx)
  obtain ⟨ndP, ndC, hdisj⟩ := List.nodup_append.mp hnd
  have hPlen := ok.passMap_length
  have f1 : (m.passMap.zip args).map Prod.fst = m.passMap := List.map_fst_zip (by omega)
  have f2 : (m.curryMap.zip injected).map Prod.fst = m.curryMap := List.map_fst_zip (by omega)
  rw [curriedCall_eq]
  have hP : ∀ j (hj : j < m.passMap.length) (hj' : j < args.length),
      (setAll (setAll (List.replicate o.length none) (m.passMap.zip args)) (m.curryMap.zip injected))[m.passMap[j]]?
        = some (some args[j]) := by
    intro j hj hj'
    have hmemP : m.passMap[j] ∈ m.passMap := List.getElem_mem hj
    rw [setAll_untouched _ _ _ (by rw [f2]; intro hx; exact hdisj _ hmemP _ hx rfl)]
    exact setAll_hit _ _ _ _ (by rw [f1]; exact ndP) (zip_getElem_mem _ _ j hj hj')
      (by simpa using hlt _ (List.mem_append.mpr (Or.inl hmemP)))
  have hC : ∀ c (hc1 : c < m.curryMap.length) (hc2 : c < injected.length),
      (setAll (setAll (List.replicate o.length none) (m.passMap.zip args)) (m.curryMap.zip injected))[m.curryMap[c]]?
        = some (some injected[c]) := by
    intro c hc1 hc2
    have hmemC : m.curryMap[c] ∈ m.curryMap := List.getElem_mem hc1
    exact setAll_hit _ _ _ _ (by rw [f2]; exact ndC) (zip_getElem_mem _ _ c hc1 hc2)
      (by simpa using hlt _ (List.mem_append.mpr (Or.inr hmemC)))
  refine ⟨by simp, hP, hC, ?_⟩
  intro i hi
  have : i ∈ m.passMap ++ m.curryMap := hperm.symm.subset (List.mem_range.mpr hi)
  rcases List.mem_append.mp this with h | h
  · obtain ⟨j, hj, hji⟩ := List.mem_iff_getElem.mp h
    exact ⟨args[j]'(by omega), by rw [← hji]; exact hP j hj (by omega)⟩
  · obtain ⟨c, hc1, hci⟩ := List.mem_iff_getElem.mp h
    exact ⟨injected[c]'(by omega), by rw [← hci]; exact hC c hc1 (by omega)⟩

/-- types: every curried-function argument lands on a parameter of its own type, every injected value
    on a parameter of the type asked of the chain -/
theorem CurryOK.types {o n m s} (ok : CurryOK o n m s) :
    (∀ j (hj : j < m.passMap.length), o[m.passMap[j]]? = n[j]?)
    ∧ m.curried = m.curryMap.map (fun k => o.getD k 0)
    ∧ m.curried.Nodup
    ∧ (∀ t ∈ m.curried, t ∉ n) := by
  refine ⟨?_, ?_, ?_, ?_⟩
  · intro j hj
    have hj' : j < n.length := by rw [ok.passMap_length] at hj; exact hj
    obtain ⟨k, hk⟩ := ok.total j hj'
    have g := ok.passMap_get j k hk
    rw [List.getElem?_eq_getElem hj] at g
    have : m.passMap[j] = k := by simpa using g
    rw [this]
    obtain ⟨_, t, h1, h2⟩ := ok.fst_lt j k hk
    rw [h1, h2]
  · rw [ok.maps]; exact ok.inv.cur_eq
  · rw [ok.maps]; exact ok.inv.cur_nodup
  · intro t ht hn
    have : t ∈ s.cur := by rw [ok.maps] at ht; exact ht
    have hemp := ok.inv.cur_notin t this
    obtain ⟨j, hj, hjt⟩ := List.mem_iff_getElem.mp hn
    have : j ∈ positionsOf n t := mem_positionsOf.mpr (by rw [List.getElem?_eq_getElem hj, hjt])
    rw [hemp] at this; cases this

end Nject

namespace Nject

/-! ## the struct builder -/

/-- two field paths overlap when one lies at or below the other -/
def Overlap (p q : Path) : Prop := p <+: q ∨ q <+: p

def NoOverlap (l : List (Path × Ty)) : Prop := l.Pairwise fun x y => ¬ Overlap x.1 y.1

theorem not_overlap_of_ne (path r1 r2 : Path) (i k : Nat) (h : i ≠ k) :
    ¬ Overlap (path ++ i :: r1) (path ++ k :: r2) := by
  intro hov
  rcases hov with hov | hov
  · rw [List.prefix_append_right_inj, List.cons_prefix_cons] at hov; exact h hov.1
  · rw [List.prefix_append_right_inj, List.cons_prefix_cons] at hov; exact h hov.1.symm

mutual
theorem FDesc.inputs_form : ∀ (d : FDesc) (path : Path) (l : List (Path × Ty)), d.inputs path = some l →
    ∀ x ∈ l, ∃ k r, x.1 = path ++ k :: r
  | .leaf _, path, l, h, x, hx => by
    simp only [FDesc.inputs, Option.some.injEq] at h; subst h; cases hx
  | .struct _ fs, path, l, h, x, hx => by
    simp only [FDesc.inputs] at h
    obtain ⟨k, r, _, e⟩ := FFields.inputs_form fs path 0 l h x hx
    exact ⟨k, r, e⟩
theorem FFields.inputs_form : ∀ (fs : FFields) (path : Path) (i : Nat) (l : List (Path × Ty)),
    fs.inputs path i = some l → ∀ x ∈ l, ∃ k r, i ≤ k ∧ x.1 = path ++ k :: r
  | .nil, path, i, l, h, x, hx => by
    simp only [FFields.inputs, Option.some.injEq] at h; subst h; cases hx
  | .cons exported tags d rest, path, i, l, h, x, hx => by
    have later : ∀ l', rest.inputs path (i + 1) = some l' → x ∈ l' → ∃ k r, i ≤ k ∧ x.1 = path ++ k :: r := by
      intro l' h' hx'
      obtain ⟨k, r, hk, e⟩ := FFields.inputs_form rest path (i + 1) l' h' x hx'
      exact ⟨k, r, by omega, e⟩
    simp only [FFields.inputs] at h
    split at h
    · exact later l h hx
    · split at h
      · cases h
      · split at h
        · exact later l h hx
        · split at h
          · -- leaf
            rename_i t
            cases hr : rest.inputs path (i + 1) with
            | none => rw [hr] at h; cases h
            | some l' =>
              rw [hr] at h; simp only [Option.map_some, Option.some.injEq] at h; subst h
              rcases List.mem_cons.mp hx with hx | hx
              · subst hx; exact ⟨i, [], Nat.le_refl _, rfl⟩
              · exact later l' hr hx
          · rename_i id fs _
            split at h
            · cases hr : rest.inputs path (i + 1) with
              | none => rw [hr] at h; cases h
              | some l' =>
                rw [hr] at h; simp only [Option.map_some, Option.some.injEq] at h; subst h
                rcases List.mem_cons.mp hx with hx | hx
                · subst hx; exact ⟨i, [], Nat.le_refl _, rfl⟩
                · exact later l' hr hx
            · split at h
              · cases h
              · rename_i a ha
                cases hr : rest.inputs path (i + 1) with
                | none => rw [hr] at h; cases h
                | some l' =>
                  rw [hr] at h; simp only [Option.map_some, Option.some.injEq] at h; subst h
                  rcases List.mem_append.mp hx with hx | hx
                  · obtain ⟨k, r, _, e⟩ := FFields.inputs_form fs (path ++ [i]) 0 a ha x hx
                    exact ⟨i, k :: r, Nat.le_refl _, by rw [e]; simp⟩
                  · exact later l' hr hx
end

mutual
theorem FDesc.inputs_noOverlap : ∀ (d : FDesc) (path : Path) (l : List (Path × Ty)), d.inputs path = some l →
    NoOverlap l
  | .leaf _, path, l, h => by
    simp only [FDesc.inputs, Option.some.injEq] at h; subst h; exact List.Pairwise.nil
  | .struct _ fs, path, l, h => by
    simp only [FDesc.inputs] at h
    exact FFields.inputs_noOverlap fs path 0 l h
theorem FFields.inputs_noOverlap : ∀ (fs : FFields) (path : Path) (i : Nat) (l : List (Path × Ty)),
    fs.inputs path i = some l → NoOverlap l
  | .nil, path, i, l, h => by
    simp only [FFields.inputs, Option.some.injEq] at h; subst h; exact List.Pairwise.nil
  | .cons exported tags d rest, path, i, l, h => by
    have later : ∀ l', rest.inputs path (i + 1) = some l' → NoOverlap l' :=
      fun l' h' => FFields.inputs_noOverlap rest path (i + 1) l' h'
    have cross : ∀ l', rest.inputs path (i + 1) = some l' → ∀ r1, ∀ y ∈ l', ¬ Overlap (path ++ i :: r1) y.1 := by
      intro l' h' r1 y hy
      obtain ⟨k, r, hk, e⟩ := FFields.inputs_form rest path (i + 1) l' h' y hy
      rw [e]; exact not_overlap_of_ne path r1 r i k (by omega)
    simp only [FFields.inputs] at h
    split at h
    · exact later l h
    · split at h
      · cases h
      · split at h
        · exact later l h
        · split at h
          · rename_i t
            cases hr : rest.inputs path (i + 1) with
            | none => rw [hr] at h; cases h
            | some l' =>
              rw [hr] at h; simp only [Option.map_some, Option.some.injEq] at h; subst h
              exact List.pairwise_cons.mpr ⟨fun y hy => cross l' hr [] y hy, later l' hr⟩
          · rename_i id fs _
            split at h
            · cases hr : rest.inputs path (i + 1) with
              | none => rw [hr] at h; cases h
              | some l' =>
                rw [hr] at h; simp only [Option.map_some, Option.some.injEq] at h; subst h
                exact List.pairwise_cons.mpr ⟨fun y hy => cross l' hr [] y hy, later l' hr⟩
            · split at h
              · cases h
              · rename_i a ha
                cases hr : rest.inputs path (i + 1) with
                | none => rw [hr] at h; cases h
                | some l' =>
                  rw [hr] at h; simp only [Option.map_some, Option.some.injEq] at h; subst h
                  refine List.pairwise_append.mpr ⟨FFields.inputs_noOverlap fs (path ++ [i]) 0 a ha, later l' hr, ?_⟩
                  intro x hx y hy
                  obtain ⟨k, r, _, e⟩ := FFields.inputs_form fs (path ++ [i]) 0 a ha x hx
                  have e' : x.1 = path ++ i :: (k :: r) := by rw [e]; simp
                  rw [e']; exact cross l' hr (k :: r) y hy
end

end Nject

namespace Nject

/-- reading back below a written path gives the value written there, provided no other write
    overlaps it (then the order of the writes does not matter either) -/
theorem StructVal.get_written (s1 s2 : StructVal) (q : Path) (v : Nat) (suffix : Path)
    (h2 : ∀ w ∈ s2, ¬ Overlap w.1 q) :
    StructVal.get (s1 ++ (q, v) :: s2) (q ++ suffix) = v := by
  unfold StructVal.get
  have hnot : ∀ (l : StructVal), (∀ w ∈ l, ¬ Overlap w.1 q) → ∀ w ∈ l, ¬ (w.1.isPrefixOf (q ++ suffix) = true) := by
    intro l hl w hw hp
    rw [List.isPrefixOf_iff_prefix] at hp
    exact hl w hw (List.prefix_or_prefix_of_prefix hp (List.prefix_append q suffix))
  have hfind : (s1 ++ (q, v) :: s2).reverse.find? (fun w => w.1.isPrefixOf (q ++ suffix)) = some (q, v) := by
    rw [List.find?_eq_some_iff_append]
    refine ⟨by simp, s2.reverse, s1.reverse, by simp, ?_⟩
    intro a ha
    have := hnot s2 h2 a (List.mem_reverse.mp ha)
    cases hb : List.isPrefixOf a.fst (q ++ suffix) with
    | false => simp
    | true => exact absurd hb this
  rw [hfind]

theorem StructVal.get_untouched (s : StructVal) (p : Path) (h : ∀ w ∈ s, ¬ w.1 <+: p) : StructVal.get s p = 0 := by
  unfold StructVal.get
  have : s.reverse.find? (fun w => w.1.isPrefixOf p) = none := by
    rw [List.find?_eq_none]
    intro x hx hp
    rw [List.isPrefixOf_iff_prefix] at hp
    exact h x (List.mem_reverse.mp hx) hp
  rw [this]

theorem fillerCall_map (ins : List (Path × Ty)) (f : Path × Ty → Nat) :
    fillerCall ins (ins.map f) = ins.map fun pt => (pt.1, f pt) := by
  unfold fillerCall
  induction ins with
  | nil => rfl
  | cons x xs ih => simp [List.zip_cons_cons, ih]

/-- after the builder ran, every field it asked a value for holds that value (and for a
    whole-filled nested struct, so does everything below it) -/
theorem filler_fills (ins : List (Path × Ty)) (hno : NoOverlap ins) (f : Path × Ty → Nat)
    (x : Path × Ty) (hx : x ∈ ins) (suffix : Path) :
    (fillerCall ins (ins.map f)).get (x.1 ++ suffix) = f x := by
  rw [fillerCall_map]
  obtain ⟨a, b, hab⟩ := List.append_of_mem hx
  subst hab
  unfold NoOverlap at hno
  rw [List.pairwise_append, List.pairwise_cons] at hno
  obtain ⟨_, ⟨hxb, _⟩, _⟩ := hno
  simp only [List.map_append, List.map_cons]
  apply StructVal.get_written
  · intro w hw
    obtain ⟨y, hy, hyw⟩ := List.mem_map.mp hw
    subst hyw
    intro hov
    exact hxb y hy (Or.symm hov)

/-- a field that lies under no input path keeps the zero value -/
theorem filler_leaves_rest_zero (ins : List (Path × Ty)) (f : Path × Ty → Nat) (p : Path)
    (h : ∀ x ∈ ins, ¬ x.1 <+: p) : (fillerCall ins (ins.map f)).get p = 0 := by
  rw [fillerCall_map]
  apply StructVal.get_untouched
  intro w hw
  obtain ⟨y, hy, hyw⟩ := List.mem_map.mp hw
  subst hyw
  exact h y hy

end Nject

namespace Nject

/-- The documented contract of MakeStructBuilder, stated without reference to `mapStruct`: which
    (field path, type) pairs the builder fills.  Exported fields only; a field whose tags leave it
    skipped is not filled and not descended into; a nested struct is filled field by field unless
    its tags say `whole`. -/
inductive Fills : FFields → Path → Nat → Path × Ty → Prop
  | leaf {tags t rest path i st} :
      applyTags false tags {} = some st → st.skip = false →
      Fills (.cons true tags (.leaf t) rest) path i (path ++ [i], t)
  | whole {tags id fs rest path i st} :
      applyTags true tags {} = some st → st.skip = false → st.whole = true →
      Fills (.cons true tags (.struct id fs) rest) path i (path ++ [i], id)
  | inside {tags id fs rest path i st x} :
      applyTags true tags {} = some st → st.skip = false → st.whole = false →
      Fills fs (path ++ [i]) 0 x →
      Fills (.cons true tags (.struct id fs) rest) path i x
  | later {e tags d rest path i x} :
      Fills rest path (i + 1) x → Fills (.cons e tags d rest) path i x

theorem FFields.inputs_sound : ∀ (fs : FFields) (path : Path) (i : Nat) (l : List (Path × Ty)),
    fs.inputs path i = some l → ∀ x ∈ l, Fills fs path i x
  | .nil, path, i, l, h, x, hx => by
    simp only [FFields.inputs, Option.some.injEq] at h; subst h; cases hx
  | .cons exported tags d rest, path, i, l, h, x, hx => by
    have later : ∀ l', rest.inputs path (i + 1) = some l' → x ∈ l' → Fills (.cons exported tags d rest) path i x :=
      fun l' h' hx' => Fills.later (FFields.inputs_sound rest path (i + 1) l' h' x hx')
    simp only [FFields.inputs] at h
    split at h
    · exact later l h hx
    · rename_i hexp
      have hexp' : exported = true := by simpa using hexp
      subst hexp'
      split at h
      · cases h
      · rename_i st hst
        split at h
        · exact later l h hx
        · rename_i hskip
          have hskip' : st.skip = false := by simpa using hskip
          split at h
          · rename_i t
            cases hr : rest.inputs path (i + 1) with
            | none => rw [hr] at h; cases h
            | some l' =>
              rw [hr] at h; simp only [Option.map_some, Option.some.injEq] at h; subst h
              rcases List.mem_cons.mp hx with hx | hx
              · subst hx; exact Fills.leaf hst hskip'
              · exact later l' hr hx
          · rename_i id fs
            split at h
            · rename_i hwhole
              cases hr : rest.inputs path (i + 1) with
              | none => rw [hr] at h; cases h
              | some l' =>
                rw [hr] at h; simp only [Option.map_some, Option.some.injEq] at h; subst h
                rcases List.mem_cons.mp hx with hx | hx
                · subst hx; exact Fills.whole hst hskip' hwhole
                · exact later l' hr hx
            · rename_i hwhole
              split at h
              · cases h
              · rename_i a ha
                cases hr : rest.inputs path (i + 1) with
                | none => rw [hr] at h; cases h
                | some l' =>
                  rw [hr] at h; simp only [Option.map_some, Option.some.injEq] at h; subst h
                  rcases List.mem_append.mp hx with hx | hx
                  · exact Fills.inside hst hskip' (by simpa using hwhole)
                      (FFields.inputs_sound fs (path ++ [i]) 0 a ha x hx)
                  · exact later l' hr hx

theorem FFields.inputs_rest {exported tags d rest path i l} (h : (FFields.cons exported tags d rest).inputs path i = some l) :
    ∃ l', rest.inputs path (i + 1) = some l' ∧ ∀ x ∈ l', x ∈ l := by
  simp only [FFields.inputs] at h
  split at h
  · exact ⟨l, h, fun _ hx => hx⟩
  · split at h
    · cases h
    · split at h
      · exact ⟨l, h, fun _ hx => hx⟩
      · cases hr : rest.inputs path (i + 1) with
        | none =>
          rw [hr] at h
          split at h
          · cases h
          · split at h
            · cases h
            · split at h <;> cases h
        | some l' =>
          rw [hr] at h
          refine ⟨l', rfl, ?_⟩
          split at h
          · simp only [Option.map_some, Option.some.injEq] at h; subst h
            exact fun x hx => List.mem_cons_of_mem _ hx
          · split at h
            · simp only [Option.map_some, Option.some.injEq] at h; subst h
              exact fun x hx => List.mem_cons_of_mem _ hx
            · split at h
              · cases h
              · simp only [Option.map_some, Option.some.injEq] at h; subst h
                exact fun x hx => List.mem_append.mpr (Or.inr hx)

theorem FFields.inputs_complete {fs : FFields} {path : Path} {i : Nat} {x : Path × Ty} (hf : Fills fs path i x) :
    ∀ l, fs.inputs path i = some l → x ∈ l := by
  induction hf with
  | @leaf tags t rest path i st hst hskip =>
    intro l h
    simp only [FFields.inputs, FDesc.isStruct, Bool.not_true, Bool.false_eq_true, if_false, hst, hskip] at h
    cases hr : rest.inputs path (i + 1) with
    | none => rw [hr] at h; cases h
    | some l' =>
      rw [hr] at h; simp only [Option.map_some, Option.some.injEq] at h; subst h
      exact List.mem_cons_self
  | @whole tags id fs rest path i st hst hskip hwhole =>
    intro l h
    simp only [FFields.inputs, FDesc.isStruct, Bool.not_true, Bool.false_eq_true, if_false, hst, hskip, hwhole, if_true] at h
    cases hr : rest.inputs path (i + 1) with
    | none => rw [hr] at h; cases h
    | some l' =>
      rw [hr] at h; simp only [Option.map_some, Option.some.injEq] at h; subst h
      exact List.mem_cons_self
  | @inside tags id fs rest path i st x hst hskip hwhole _ ih =>
    intro l h
    simp only [FFields.inputs, FDesc.isStruct, Bool.not_true, Bool.false_eq_true, if_false, hst, hskip, hwhole] at h
    split at h
    · cases h
    · rename_i a ha
      cases hr : rest.inputs path (i + 1) with
      | none => rw [hr] at h; cases h
      | some l' =>
        rw [hr] at h; simp only [Option.map_some, Option.some.injEq] at h; subst h
        exact List.mem_append.mpr (Or.inl (ih a ha))
  | @later e tags d rest path i x _ ih =>
    intro l h
    obtain ⟨l', hl', hsub⟩ := FFields.inputs_rest h
    exact hsub x (ih l' hl')

end Nject
