import NjectProofs.IncludeMarks
/-
  The validity check only ever takes providers out: during `checkFlows` an `inc` flag goes from true to false and
  a `cannot` mark from false to true, never back; and its first loop (`markAll`) starts every excluded provider as
  "not included, cannot be included".  So a provider that is excluded when the check starts is not included when
  it ends.
-/
namespace Nject

/-- inclusion only shrinks, the mark only spreads -/
def DM (ch ch' : Chain) : Prop :=
  ∀ j, ((ch'.get j).inc = true → (ch.get j).inc = true) ∧ ((ch.get j).cannot = true → (ch'.get j).cannot = true)

theorem DM_refl (ch : Chain) : DM ch ch := fun _ => ⟨id, id⟩

theorem DM_trans {a b c : Chain} (h1 : DM a b) (h2 : DM b c) : DM a c :=
  fun j => ⟨fun h => (h1 j).1 ((h2 j).1 h), fun h => (h2 j).2 ((h1 j).2 h)⟩

theorem DM_upd (ch : Chain) (i : Nat) (g : IP → IP)
    (hg : ((g (ch.get i)).inc = true → (ch.get i).inc = true) ∧ ((ch.get i).cannot = true → (g (ch.get i)).cannot = true)) :
    DM ch (ch.upd i g) := by
  intro j
  rw [get_upd]
  split
  · rename_i hj; rw [hj.1]; exact hg
  · exact ⟨id, id⟩

theorem checkPass_DM (b : Bool) : ∀ (todo : List Nat) (ch : Chain) (seen redo : List Nat) (ch' : Chain) (redo' : List Nat),
    checkPass b todo ch seen redo = .ok (ch', redo') → DM ch ch'
  | [], ch, seen, redo, ch', redo', h => by simp only [checkPass] at h; cases h; exact DM_refl ch
  | i :: todo, ch, seen, redo, ch', redo', h => by
    simp only [checkPass] at h
    split at h
    · exact checkPass_DM b todo ch seen redo ch' redo' h
    · split at h
      · split at h
        · cases h
        · split at h
          · cases h
          · split at h
            · exact DM_trans (DM_upd ch i (fun f => { f with inc := false }) ⟨fun hh => (by cases hh), id⟩)
                (checkPass_DM b todo _ _ _ ch' redo' h)
            · exact checkPass_DM b todo ch _ _ ch' redo' h
      · split at h
        · exact checkPass_DM b todo ch _ _ ch' redo' h
        · exact DM_trans (DM_upd ch i (fun f => { f with cannot := true }) ⟨id, fun _ => rfl⟩)
            (checkPass_DM b todo _ _ _ ch' redo' h)

theorem checkFlows_DM (b : Bool) : ∀ (fuel : Nat) (todo : List Nat) (ch ch' : Chain),
    checkFlows b fuel todo ch = .ok ch' → DM ch ch'
  | 0, _, _, _, h => by simp [checkFlows] at h
  | fuel + 1, todo, ch, ch', h => by
    simp only [checkFlows] at h
    split at h
    · cases h; exact DM_refl ch
    · split at h
      · cases h
      · rename_i ch1 redo hp
        exact DM_trans (checkPass_DM b todo ch [] [] ch1 redo hp) (checkFlows_DM b fuel redo ch1 ch' h)

/-- `markAll` touches the listed positions only -/
theorem markAll_other : ∀ (todo : List Nat) (ch : Chain) (rem : List Nat) (ch' : Chain) (rem' : List Nat),
    markAll todo ch rem = .ok (ch', rem') → ∀ j, j ∉ todo → ch'.get j = ch.get j
  | [], ch, rem, ch', rem', h, j, _ => by simp only [markAll] at h; cases h; rfl
  | i :: rest, ch, rem, ch', rem', h, j, hj => by
    simp only [markAll] at h
    have hji : j ≠ i := fun e => hj (by simp [e])
    have hjr : j ∉ rest := fun e => hj (by simp [e])
    split at h
    · rw [markAll_other rest _ _ ch' rem' h j hjr, get_upd]; simp [hji]
    · split at h
      · cases h
      · rw [markAll_other rest _ _ ch' rem' h j hjr, get_upd]; simp [hji]

/-- `markAll` starts every listed excluded provider as "not included, cannot be included" -/
theorem markAll_excl : ∀ (todo : List Nat) (ch : Chain) (rem : List Nat) (ch' : Chain) (rem' : List Nat),
    markAll todo ch rem = .ok (ch', rem') → ∀ j ∈ todo, j < ch.length → (ch.get j).excluded = true →
      (ch'.get j).inc = false ∧ (ch'.get j).cannot = true
  | [], _, _, _, _, _, j, hj, _, _ => by cases hj
  | i :: rest, ch, rem, ch', rem', h, j, hj, hjl, hex => by
    simp only [markAll] at h
    split at h
    · -- i is not excluded: j is further on
      rename_i hi
      have hji : j ≠ i := by
        intro e; rw [e] at hex; rw [hex] at hi; simp at hi
      have hjr : j ∈ rest := by
        rcases List.mem_cons.mp hj with e | e
        · exact absurd e hji
        · exact e
      refine markAll_excl rest _ _ ch' rem' h j hjr (by rw [upd_length]; exact hjl) ?_
      rw [get_upd]; simp [hji, hex]
    · split at h
      · cases h
      · by_cases hjr : j ∈ rest
        · refine markAll_excl rest _ _ ch' rem' h j hjr (by rw [upd_length]; exact hjl) ?_
          rw [get_upd]; split
          · rename_i hc; rw [hc.1] at hex; exact hex
          · exact hex
        · have hji : j = i := by
            rcases List.mem_cons.mp hj with e | e
            · exact e
            · exact absurd e hjr
          rw [markAll_other rest _ _ ch' rem' h j hjr, get_upd, hji]
          have : i < ch.length := by rw [← hji]; exact hjl
          simp [this]

/-- **an excluded provider is not included by the validity check** -/
theorem validate_excl (b : Bool) (ch ch' : Chain) (h : validate b ch = .ok ch') (j : Nat)
    (hex : (ch.get j).excluded = true) : (ch'.get j).inc = false ∧ (ch'.get j).cannot = true := by
  have hjl : j < ch.length := by
    rcases Nat.lt_or_ge j ch.length with hlt | hge
    · exact hlt
    · rw [get_default_of_ge ch j (by omega)] at hex; cases hex
  unfold validate at h
  split at h
  · cases h
  · rename_i ch1 rem hm
    have ⟨h1, h2⟩ := markAll_excl _ ch [] ch1 rem hm j (by simpa using hjl) hjl hex
    have dm := checkFlows_DM b _ rem ch1 ch' h
    refine ⟨?_, (dm j).2 h2⟩
    cases hinc : (ch'.get j).inc with
    | false => rfl
    | true => rw [(dm j).1 hinc] at h1; cases h1

end Nject
