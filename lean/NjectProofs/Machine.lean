import NjectProofs.Static
/-
  From the executable validator to the refinement of whole histories:
  `checkWF c = none` gives the hypotheses of the chain theorems, and every sequence of
  init/invoke calls on the bound chain yields the same results and trace in Exec and Spec.
-/
namespace Nject

/-! ### `slotsOk` ⇒ `SlotsOK` -/

theorem lookup_mem : ∀ (l : List (Nat × Nat)) (t i : Nat), l.lookup t = some i → (t, i) ∈ l
  | [], _, _, h => by simp [List.lookup] at h
  | (k, v) :: l, t, i, h => by
    simp only [List.lookup] at h
    by_cases hk : t = k
    · subst hk; simp at h; subst h; simp
    · have : (t == k) = false := by simpa using hk
      rw [this] at h
      exact List.mem_cons_of_mem _ (lookup_mem l t i h)

theorem nodup_snd_inj : ∀ (l : List (Nat × Nat)), (l.map (·.2)).Nodup →
    ∀ a b i, (a, i) ∈ l → (b, i) ∈ l → a = b
  | [], _, _, _, _, ha, _ => by cases ha
  | (x, j) :: l, h, a, b, i, ha, hb => by
    simp only [List.map, List.nodup_cons, List.mem_map, not_exists, not_and] at h
    obtain ⟨hj, hnd⟩ := h
    simp only [List.mem_cons, Prod.mk.injEq] at ha hb
    cases ha with
    | inl ha =>
      cases hb with
      | inl hb => rw [ha.1, hb.1]
      | inr hb => exact absurd (ha.2 ▸ rfl : (b, i).2 = j) (hj (b, i) hb)
    | inr ha =>
      cases hb with
      | inl hb => exact absurd (hb.2 ▸ rfl : (a, i).2 = j) (hj (a, i) ha)
      | inr hb => exact nodup_snd_inj l hnd a b i ha hb

theorem mem_map_snd {l : List (Nat × Nat)} {a i : Nat} (h : (a, i) ∈ l) : i ∈ l.map (·.2) :=
  List.mem_map.mpr ⟨(a, i), h, rfl⟩

theorem slotsOk_sound (c : Compiled) (h : slotsOk c = true) : SlotsOK c.maps c.vcount := by
  simp only [slotsOk, allDistinct, Bool.and_eq_true, decide_eq_true_eq, List.all_eq_true] at h
  obtain ⟨⟨⟨hnd, hlt⟩, _⟩, _⟩ := h
  have hnd' := List.nodup_append.mp hnd
  obtain ⟨hd, hu, hdis⟩ := hnd'
  refine ⟨?_, ?_, ?_, ?_, ?_⟩
  · intro t1 t2 i h1 h2
    exact nodup_snd_inj c.dmap hd t1 t2 i (lookup_mem _ _ _ h1) (lookup_mem _ _ _ h2)
  · intro t1 t2 i h1 h2
    exact nodup_snd_inj c.umap hu t1 t2 i (lookup_mem _ _ _ h1) (lookup_mem _ _ _ h2)
  · intro t1 t2 i h1 h2
    exact hdis i (mem_map_snd (lookup_mem _ _ _ h1)) i (mem_map_snd (lookup_mem _ _ _ h2)) rfl
  · intro t i h1
    exact hlt i (List.mem_append.mpr (Or.inl (mem_map_snd (lookup_mem _ _ _ h1))))
  · intro t i h1
    exact hlt i (List.mem_append.mpr (Or.inr (mem_map_snd (lookup_mem _ _ _ h1))))

/-- everything `checkWF` establishes, as propositions -/
structure WF (c : Compiled) : Prop where
  slots : SlotsOK c.maps c.vcount
  run : wfRun c.maps c.errTy c.fin c.run = true
  recv : ∀ t ∈ c.invokeRecv, (c.maps.u t).isSome
  static : wfStatic c.maps.d c.statics = true
  init : ∀ sig, c.init = some sig → ∀ t ∈ sig.bypass, (c.maps.d t).isSome

theorem checkWF_sound (c : Compiled) (h : checkWF c = none) : WF c := by
  unfold checkWF at h
  split at h; · cases h
  split at h; · cases h
  split at h; · cases h
  split at h; · cases h
  split at h; · cases h
  split at h; · cases h
  rename_i h1 h2 h3 _ h5 h6
  refine ⟨slotsOk_sound c (by simpa using h1), by simpa using h2, ?_, by simpa using h5, ?_⟩
  · have : (c.invokeRecv.all fun t => (c.maps.u t).isSome) = true := by
      cases hb : (c.invokeRecv.all fun t => (c.maps.u t).isSome) with
      | true => rfl
      | false => rw [hb] at h3; exact absurd rfl h3
    exact List.all_eq_true.mp this
  · intro sig hs t ht
    have : initOk c = true := by simpa using h6
    simp only [initOk, hs, List.all_eq_true] at this
    exact this t ht

/-! ### the bound chain as a state machine -/

structure BRel (c : Compiled) (s : Bound) (ss : SBound) : Prop where
  len : s.base.length = c.vcount
  d : Rel c.maps.d s.base ss.base
  u : Rel c.maps.u s.base Env.empty
  done : s.staticDone = ss.staticDone
  st : s.st = ss.st

theorem replicate_rel (f : Ty → Option Nat) (n : Nat) : Rel f (List.replicate n none) Env.empty := by
  intro t i _
  simp [obs, Env.rd, Env.empty, List.getElem?_replicate]
  split <;> rfl

theorem bindState_rel (c : Compiled) (h : WF c) : BRel c c.bindState c.specBindState := by
  have hs := h.slots
  -- generalise the fold over literals
  have key : ∀ (lits : List (Ty × Val)) (v : VC) (e : Env), v.length = c.vcount → Rel c.maps.d v e →
      Rel c.maps.u v Env.empty →
      let v' := lits.foldl (fun v (p : Ty × Val) =>
        match c.dmap.lookup p.1 with
        | some i => v.set i (some p.2)
        | none => v) v
      v'.length = c.vcount ∧ Rel c.maps.d v' (lits.foldl (fun e (p : Ty × Val) => e.set1 p.1 p.2) e) ∧
      Rel c.maps.u v' Env.empty := by
    intro lits
    induction lits with
    | nil => intro v e hl hd hu; exact ⟨hl, hd, hu⟩
    | cons p lits ih =>
      intro v e hl hd hu
      simp only [List.foldl]
      cases hlk : c.dmap.lookup p.1 with
      | none =>
        exact ih v (e.set1 p.1 p.2) hl (rel_set1_noslot c.maps.d v e p.1 p.2 hlk hd) hu
      | some i =>
        have hlt : i < v.length := by rw [hl]; exact hs.dlt p.1 i hlk
        refine ih (v.set i (some p.2)) (e.set1 p.1 p.2) (by simpa using hl)
          (rel_set1 c.maps.d hs.dinj v e p.1 i p.2 hlk hlt hd) ?_
        intro t2 j hj
        have hij : i ≠ j := by
          intro heq; subst heq; exact hs.disj p.1 t2 i hlk hj
        rw [obs_set_other v i j _ t2 hij]; exact hu t2 j hj
  have := key c.lits (List.replicate c.vcount none) Env.empty (by simp)
    (replicate_rel _ _) (replicate_rel _ _)
  exact ⟨this.1, this.2.1, this.2.2, rfl, rfl⟩

theorem execInvoke_refines (c : Compiled) (b : Beh) (h : WF c) (s : Bound) (ss : SBound)
    (hr : BRel c s ss) (args : List Val) :
    (c.execInvoke b s args).1 = (c.specInvoke b ss args).1 ∧
    BRel c (c.execInvoke b s args).2 (c.specInvoke b ss args).2 := by
  have hs := h.slots
  obtain ⟨base, done, st⟩ := s
  obtain ⟨sbase, sdone, sst⟩ := ss
  obtain ⟨hlen, hd, hu, hdone, hst⟩ := hr
  simp only at hlen hd hu hdone hst
  subst hdone; subst hst
  -- after the (possibly lazily run) static phase the two states are still related
  have hstat : ∀ (s1 : Bound) (ss1 : SBound), BRel c s1 ss1 →
      (let v := wrOuts c.maps.d s1.base c.invokeOuts args
       let r := execNodes b c.maps c.errTy c.fin c.run v s1.st
       (((rdIns c.maps.u r.1 c.invokeRecv).getD [], ({ s1 with st := r.2 } : Bound)) : List Val × Bound)).1 =
      (let r := specNodes b c.errTy c.fin c.run (ss1.base.set c.invokeOuts args) ss1.st
       ((c.invokeRecv.map r.1.rd, ({ ss1 with st := r.2 } : SBound)) : List Val × SBound)).1 ∧
      BRel c
        (let v := wrOuts c.maps.d s1.base c.invokeOuts args
         let r := execNodes b c.maps c.errTy c.fin c.run v s1.st
         (((rdIns c.maps.u r.1 c.invokeRecv).getD [], ({ s1 with st := r.2 } : Bound)) : List Val × Bound)).2
        (let r := specNodes b c.errTy c.fin c.run (ss1.base.set c.invokeOuts args) ss1.st
         ((c.invokeRecv.map r.1.rd, ({ ss1 with st := r.2 } : SBound)) : List Val × SBound)).2 := by
    intro s1 ss1 hr1
    obtain ⟨base1, done1, st1⟩ := s1
    obtain ⟨sbase1, sdone1, sst1⟩ := ss1
    obtain ⟨hlen1, hd1, hu1, hdone1, hst1⟩ := hr1
    simp only at hlen1 hd1 hu1 hdone1 hst1
    subst hdone1; subst hst1
    have hv := exec_refines_spec_run b c.maps c.vcount hs c.errTy c.fin c.run h.run
      (wrOuts c.maps.d base1 c.invokeOuts args) (sbase1.set c.invokeOuts args) st1
      (by rw [wrOuts_length]; exact hlen1)
      (wrOuts_rel c.maps.d hs.dinj c.vcount hs.dlt c.invokeOuts args base1 sbase1 hlen1 hd1)
      (wrOuts_rel_other c.maps.d c.maps.u hs.disj c.invokeOuts args base1 Env.empty hu1)
    obtain ⟨hst, hru, _⟩ := hv
    have hrd := rdIns_eq c.maps.u _ _ hru c.invokeRecv h.recv
    simp only
    refine ⟨by rw [hrd]; rfl, ⟨hlen1, hd1, hu1, rfl, hst⟩⟩
  by_cases hc : (c.init.isNone && !done) = true
  · have hx := exec_refines_spec_static b c.maps c.vcount hs c.statics h.static base sbase st hlen hd hu
    have := hstat
      { base := (execStatic b c.maps c.statics base st).1, staticDone := true,
        st := (execStatic b c.maps c.statics base st).2 }
      { base := (specStatic b c.statics sbase st).1, staticDone := true,
        st := (specStatic b c.statics sbase st).2 }
      ⟨hx.2.2.2, hx.2.1, hx.2.2.1, rfl, hx.1⟩
    simpa only [Compiled.execInvoke, Compiled.specInvoke, hc, ↓reduceIte] using this
  · have hc' : (c.init.isNone && !done) = false := by
      cases hb : (c.init.isNone && !done) with
      | true => exact absurd hb hc
      | false => rfl
    have := hstat ⟨base, done, st⟩ ⟨sbase, done, st⟩ ⟨hlen, hd, hu, rfl, rfl⟩
    simpa only [Compiled.execInvoke, Compiled.specInvoke, hc', Bool.false_eq_true, ↓reduceIte] using this

theorem execInit_refines (c : Compiled) (b : Beh) (h : WF c) (s : Bound) (ss : SBound)
    (hr : BRel c s ss) (args : List Val) :
    (c.execInit b s args).1 = (c.specInit b ss args).1 ∧
    BRel c (c.execInit b s args).2 (c.specInit b ss args).2 := by
  have hs := h.slots
  obtain ⟨base, done, st⟩ := s
  obtain ⟨sbase, sdone, sst⟩ := ss
  obtain ⟨hlen, hd, hu, hdone, hst⟩ := hr
  simp only at hlen hd hu hdone hst
  subst hdone; subst hst
  unfold Compiled.execInit Compiled.specInit
  cases hi : c.init with
  | none => exact ⟨rfl, ⟨hlen, hd, hu, rfl, rfl⟩⟩
  | some sig =>
    simp only
    by_cases hdn : done = true
    · subst hdn
      simp only [↓reduceIte]
      refine ⟨?_, ⟨hlen, hd, hu, rfl, rfl⟩⟩
      rw [rdIns_eq c.maps.d base sbase hd sig.bypass (h.init sig hi)]; rfl
    · have hdn' : done = false := by cases done <;> simp_all
      subst hdn'
      simp only [Bool.false_eq_true, ↓reduceIte]
      have hx := exec_refines_spec_static b c.maps c.vcount hs c.statics h.static
        (wrOuts c.maps.d base sig.outs args) (sbase.set sig.outs args) st
        (by rw [wrOuts_length]; exact hlen)
        (wrOuts_rel c.maps.d hs.dinj c.vcount hs.dlt sig.outs args base sbase hlen hd)
        (wrOuts_rel_other c.maps.d c.maps.u hs.disj sig.outs args base Env.empty hu)
      refine ⟨?_, ⟨hx.2.2.2, hx.2.1, hx.2.2.1, rfl, hx.1⟩⟩
      rw [rdIns_eq c.maps.d _ _ hx.2.1 sig.bypass (h.init sig hi)]; rfl

/-- an operation on a bound chain -/
inductive BOp where
  | init (args : List Val)
  | invoke (args : List Val)

def Compiled.execOp (c : Compiled) (b : Beh) (s : Bound) : BOp → List Val × Bound
  | .init a => c.execInit b s a
  | .invoke a => c.execInvoke b s a

def Compiled.specOp (c : Compiled) (b : Beh) (s : SBound) : BOp → List Val × SBound
  | .init a => c.specInit b s a
  | .invoke a => c.specInvoke b s a

/-- results of a whole history of calls, in order, and the final state -/
def Compiled.execHistory (c : Compiled) (b : Beh) : List BOp → Bound → List (List Val) × Bound
  | [], s => ([], s)
  | op :: ops, s =>
    let r := c.execOp b s op
    let rs := c.execHistory b ops r.2
    (r.1 :: rs.1, rs.2)

def Compiled.specHistory (c : Compiled) (b : Beh) : List BOp → SBound → List (List Val) × SBound
  | [], s => ([], s)
  | op :: ops, s =>
    let r := c.specOp b s op
    let rs := c.specHistory b ops r.2
    (r.1 :: rs.1, rs.2)

/-- **exec_refines_spec**: for every well-formed compiled chain, every behaviour of the user's
    providers and every history of init/invoke calls, the model of the generated code and the
    reference semantics return the same values and record the same trace of provider calls. -/
theorem exec_refines_spec (c : Compiled) (b : Beh) (h : checkWF c = none) :
    ∀ (ops : List BOp) (s : Bound) (ss : SBound), BRel c s ss →
      (c.execHistory b ops s).1 = (c.specHistory b ops ss).1 ∧
      (c.execHistory b ops s).2.st = (c.specHistory b ops ss).2.st
  | [], s, ss, hr => ⟨rfl, hr.st⟩
  | op :: ops, s, ss, hr => by
    have hw := checkWF_sound c h
    have hstep : (c.execOp b s op).1 = (c.specOp b ss op).1 ∧ BRel c (c.execOp b s op).2 (c.specOp b ss op).2 := by
      cases op with
      | init a => exact execInit_refines c b hw s ss hr a
      | invoke a => exact execInvoke_refines c b hw s ss hr a
    have ih := exec_refines_spec c b h ops _ _ hstep.2
    simp only [Compiled.execHistory, Compiled.specHistory]
    exact ⟨by rw [hstep.1, ih.1], ih.2⟩

theorem exec_refines_spec_from_bind (c : Compiled) (b : Beh) (h : checkWF c = none) (ops : List BOp) :
    (c.execHistory b ops c.bindState).1 = (c.specHistory b ops c.specBindState).1 ∧
    (c.execHistory b ops c.bindState).2.st.trace = (c.specHistory b ops c.specBindState).2.st.trace := by
  have := exec_refines_spec c b h ops _ _ (bindState_rel c (checkWF_sound c h))
  exact ⟨this.1, by rw [this.2]⟩

end Nject
