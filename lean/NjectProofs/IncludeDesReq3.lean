import NjectProofs.IncludeDesReq2
/-
  The trial validations of the two readings (provider `d` Desired / Required): when the first fails, so does the second; when
  the first succeeds it has not dropped `d` (a trial may not drop a Desired provider), so the second succeeds too.
-/
namespace Nject

/-- one pass: if the Desired reading fails, the Required reading fails -/
theorem checkPass_sim_err (b : Bool) (d : Nat) : ∀ (todo : List Nat) (x y : Chain) (seen redo : List Nat) (e : IncErr),
    RelD d x y → checkPass b todo x seen redo = .error e → ∃ e', checkPass b todo y seen redo = .error e'
  | [], x, y, seen, redo, e, _, h => by simp [checkPass] at h
  | i :: todo, x, y, seen, redo, e, hrel, h => by
    have hf := RelD_fields hrel i
    simp only [checkPass] at h ⊢
    by_cases hseen : seen.contains i = true
    · rw [if_pos hseen] at h ⊢
      exact checkPass_sim_err b d todo x y seen redo e hrel h
    · rw [if_neg hseen] at h ⊢
      by_cases hcan : (x.get i).cannot = true
      · have hcany : (y.get i).cannot = true := by rw [hf.2.1]; exact hcan
        rw [if_pos hcan] at h
        rw [if_pos hcany]
        by_cases hid : i = d
        · -- the Required reading fails right here
          have hry : (y.get i).c.required = true := by rw [hrel.2 i, if_pos hid]; rfl
          rw [if_pos hry]
          exact ⟨_, rfl⟩
        · have hc : (y.get i).c = (x.get i).c := hf.2.2.2.2.2 hid
          rw [hc, hf.2.2.2.1 hid, hf.2.2.1, hf.1, hf.2.2.2.2.1]
          by_cases hr : (x.get i).c.required = true
          · rw [if_pos hr]; exact ⟨_, rfl⟩
          · rw [if_neg hr] at h ⊢
            split at h
            · rename_i hw
              rw [if_pos hw]; exact ⟨_, rfl⟩
            · rename_i hw
              rw [if_neg hw]
              split at h
              · rename_i hi
                rw [if_pos hi]
                exact checkPass_sim_err b d todo _ _ _ _ e (RelD_upd hrel i (fun f => { f with inc := false }) (fun f => rfl)) h
              · rename_i hi
                rw [if_neg hi]
                exact checkPass_sim_err b d todo x y _ _ e hrel h
      · have hcany : ¬ (y.get i).cannot = true := by rw [hf.2.1]; exact hcan
        rw [if_neg hcan] at h
        rw [if_neg hcany, localCheck_RelD hrel i]
        split at h
        · rename_i hl
          rw [if_pos hl]
          exact checkPass_sim_err b d todo x y _ _ e hrel h
        · rename_i hl
          rw [if_neg hl]
          exact checkPass_sim_err b d todo _ _ _ _ e (RelD_upd hrel i (fun f => { f with cannot := true }) (fun f => rfl)) h

theorem checkFlows_sim_err (b : Bool) (d : Nat) : ∀ (fuel : Nat) (todo : List Nat) (x y : Chain) (e : IncErr),
    RelD d x y → (x.get d).c.required = false → (x.get d).inc = true →
    checkFlows b fuel todo x = .error e → ∃ e', checkFlows b fuel todo y = .error e'
  | 0, _, _, _, _, _, _, _, _ => by simp [checkFlows]
  | fuel + 1, todo, x, y, e, hrel, hreq, hinc, h => by
    simp only [checkFlows] at h ⊢
    split at h
    · cases h
    · rename_i he
      rw [if_neg he]
      cases hp : checkPass b todo x [] [] with
      | error e1 =>
        obtain ⟨e', he'⟩ := checkPass_sim_err b d todo x y [] [] e1 hrel hp
        rw [he']; exact ⟨_, rfl⟩
      | ok r =>
        obtain ⟨x1, redo⟩ := r
        rw [hp] at h
        simp only [] at h
        rcases checkPass_sim b d todo x y [] [] x1 redo hrel hreq hinc hp with ⟨y1, hy, hrel1, hinc1, hreq1⟩ | ⟨hy, _⟩
        · rw [hy]
          simp only []
          exact checkFlows_sim_err b d fuel redo x1 y1 e hrel1 hreq1 hinc1 h
        · rw [hy]; exact ⟨_, rfl⟩

theorem markAll_sim_err (d : Nat) : ∀ (todo : List Nat) (x y : Chain) (rem : List Nat) (e : IncErr),
    RelD d x y → markAll todo x rem = .error e → ∃ e', markAll todo y rem = .error e'
  | [], _, _, _, _, _, h => by simp [markAll] at h
  | i :: rest, x, y, rem, e, hrel, h => by
    have hf := RelD_fields hrel i
    simp only [markAll] at h ⊢
    rw [hf.2.2.1]
    by_cases hex : (x.get i).excluded = true
    · rw [if_neg (by simp [hex])] at h ⊢
      by_cases hid : i = d
      · have hry : (y.get i).c.required = true := by rw [hrel.2 i, if_pos hid]; rfl
        rw [if_pos hry]; exact ⟨_, rfl⟩
      · rw [hf.2.2.2.2.2 hid]
        split at h
        · rename_i hr
          rw [if_pos hr]; exact ⟨_, rfl⟩
        · rename_i hr
          rw [if_neg hr]
          exact markAll_sim_err d rest _ _ rem e (RelD_upd hrel i (fun f => { f with cannot := true, inc := false }) (fun f => rfl)) h
    · have hex' : (x.get i).excluded = false := by simpa using hex
      rw [if_pos (by simp [hex'])] at h ⊢
      exact markAll_sim_err d rest _ _ _ e (RelD_upd hrel i (fun f => { f with inc := true, cannot := false }) (fun f => rfl)) h

/-- a trial pass that succeeds leaves a Desired provider that is not excluded in -/
theorem checkPass_keeps_desired (d : Nat) : ∀ (todo : List Nat) (x : Chain) (seen redo : List Nat) (x' : Chain) (redo' : List Nat),
    (x.get d).inc = true → ((x.get d).wanted || (x.get d).c.desired) = true → (x.get d).excluded = false →
    checkPass false todo x seen redo = .ok (x', redo') →
      (x'.get d).inc = true ∧ ((x'.get d).wanted || (x'.get d).c.desired) = true ∧ (x'.get d).excluded = false
  | [], x, seen, redo, x', redo', hi, hdes, hx, h => by
    simp only [checkPass] at h; cases h; exact ⟨hi, hdes, hx⟩
  | i :: todo, x, seen, redo, x', redo', hi, hdes, hx, h => by
    simp only [checkPass] at h
    split at h
    · exact checkPass_keeps_desired d todo x seen redo x' redo' hi hdes hx h
    · have other : ∀ (g : IP → IP), i ≠ d → (x.upd i g).get d = x.get d := by
        intro g hne
        rw [get_upd]
        have : ¬ (d = i ∧ i < x.length) := fun hh => hne hh.1.symm
        rw [if_neg this]
      split at h
      · rename_i hcan
        split at h
        · cases h
        · split at h
          · cases h
          · rename_i hw
            have hid : i ≠ d := by
              intro e
              apply hw
              rw [e, hdes, hx]; simp
            split at h
            · have := other (fun f => { f with inc := false }) hid
              exact checkPass_keeps_desired d todo _ _ _ x' redo' (by rw [this]; exact hi) (by rw [this]; exact hdes) (by rw [this]; exact hx) h
            · exact checkPass_keeps_desired d todo x _ _ x' redo' hi hdes hx h
      · split at h
        · exact checkPass_keeps_desired d todo x _ _ x' redo' hi hdes hx h
        · have hget : ((x.upd i fun f => { f with cannot := true }).get d).inc = (x.get d).inc ∧
              ((x.upd i fun f => { f with cannot := true }).get d).c = (x.get d).c ∧
              ((x.upd i fun f => { f with cannot := true }).get d).excluded = (x.get d).excluded ∧
              ((x.upd i fun f => { f with cannot := true }).get d).wanted = (x.get d).wanted := by
            rw [get_upd]; split
            · rename_i hh; rw [hh.1]; exact ⟨rfl, rfl, rfl, rfl⟩
            · exact ⟨rfl, rfl, rfl, rfl⟩
          exact checkPass_keeps_desired d todo _ _ _ x' redo' (by rw [hget.1]; exact hi) (by rw [hget.2.1, hget.2.2.2]; exact hdes)
            (by rw [hget.2.2.1]; exact hx) h

theorem checkFlows_keeps_desired (d : Nat) : ∀ (fuel : Nat) (todo : List Nat) (x x' : Chain),
    (x.get d).inc = true → ((x.get d).wanted || (x.get d).c.desired) = true → (x.get d).excluded = false →
    checkFlows false fuel todo x = .ok x' → (x'.get d).inc = true
  | 0, _, _, _, _, _, _, h => by simp [checkFlows] at h
  | fuel + 1, todo, x, x', hi, hdes, hx, h => by
    simp only [checkFlows] at h
    split at h
    · cases h; exact hi
    · split at h
      · cases h
      · rename_i x1 redo hp
        have ⟨a, b, c⟩ := checkPass_keeps_desired d todo x [] [] x1 redo hi hdes hx hp
        exact checkFlows_keeps_desired d fuel redo x1 x' a b c h

theorem validate_false_keeps_desired (x x' : Chain) (d : Nat) (hv : validate false x = .ok x') (hd : d < x.length)
    (hdes : ((x.get d).wanted || (x.get d).c.desired) = true) (hx : (x.get d).excluded = false) (hinc : (x'.get d).inc = false) : False := by
  unfold validate at hv
  split at hv
  · cases hv
  · rename_i x1 rem hm
    have hrel : RelD d x (x.upd d reqF) := by
      refine ⟨upd_length x d reqF, fun j => ?_⟩
      rw [get_upd]
      by_cases hj : j = d
      · rw [if_pos ⟨hj, hd⟩, if_pos hj, hj]
      · rw [if_neg (fun hh => hj hh.1), if_neg hj]
    obtain ⟨_, _, _, r2, r3, r4, _⟩ := markAll_sim d _ x _ [] x1 rem hrel hx hm
    have hw1 : (x1.get d).wanted = (x.get d).wanted := by
      have := (markAll_FR _ x [] x1 rem hm).2 d
      unfold flagsOnly at this
      rw [← this]
    have := checkFlows_keeps_desired d _ rem x1 x' (r4 (by simpa using hd) hd) (by rw [r3, hw1]; exact hdes) r2 hv
    rw [this] at hinc; cases hinc

/-- **a trial validation gives the same verdict for both readings**, and related chains when it succeeds -/
theorem validate_trial_sim (d : Nat) (x y : Chain) (hrel : RelD d x y) (hs : Sym x) (hd : d < x.length)
    (hreq : (x.get d).c.required = false) (hdes : ((x.get d).wanted || (x.get d).c.desired) = true) (hx : (x.get d).excluded = false) :
    (∃ x' y', validate false x = .ok x' ∧ validate false y = .ok y' ∧ RelD d x' y') ∨
    (∃ e e', validate false x = .error e ∧ validate false y = .error e') := by
  cases hv : validate false x with
  | ok x' =>
    rcases validate_desired_vs_required false d x y x' hrel hs hd hreq hx hv with ⟨_, _, y', hy, hr⟩ | ⟨hc, _⟩
    · exact Or.inl ⟨x', y', rfl, hy, hr⟩
    · -- a trial that succeeds has not dropped a Desired provider that is not excluded
      exfalso
      have hfix := (validate_fix false x x' hv hs).2
      have hfr := validate_FR false x x' hv
      -- d is marked in x', so it is not included
      have hinc : (x'.get d).inc = false := by
        cases hi : (x'.get d).inc with
        | false => rfl
        | true => rw [(hfix d hi).1] at hc; cases hc
      -- but markAll made it included and only the "cannot" branch, which fails for a Desired provider, takes it out
      exact validate_false_keeps_desired x x' d hv hd hdes hx hinc
  | error e =>
    right
    unfold validate at hv ⊢
    rw [hrel.1]
    cases hm : markAll (List.range x.length) x [] with
    | error e1 =>
      obtain ⟨e', he'⟩ := markAll_sim_err d _ x y [] e1 hrel hm
      rw [he']; exact ⟨_, _, rfl, rfl⟩
    | ok r =>
      obtain ⟨x1, rem⟩ := r
      rw [hm] at hv
      simp only [] at hv
      obtain ⟨y1, hy, r1, _, r3, r4, _⟩ := markAll_sim d _ x y [] x1 rem hrel hx hm
      rw [hy]
      simp only []
      have hl : y1.length = x1.length := r1.1
      rw [hl]
      obtain ⟨e', he'⟩ := checkFlows_sim_err false d _ rem x1 y1 e r1 (by rw [r3]; exact hreq) (r4 (by simpa using hd) hd) hv
      exact ⟨_, _, rfl, he'⟩

end Nject
