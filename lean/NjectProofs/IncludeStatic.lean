import NjectProofs.IncludeSym
/-
  What never changes while the include computation runs: a provider's position, its classification
  (`c`: flows, annotations) and the must-consume switch of its returned values.  Used to carry
  `pos = index` and `mcRet = true` from `initState` to the chain handed to the final validation.
-/
namespace Nject

/-- the update leaves position, classification and the must-consume switches alone -/
def Keeps (g : IP → IP) : Prop := ∀ f, (g f).pos = f.pos ∧ (g f).mcRet = f.mcRet ∧ (g f).c = f.c ∧ (g f).mcOut = f.mcOut

/-- same length, and position by position the same static fields -/
def SF (ch ch' : Chain) : Prop :=
  ch'.length = ch.length ∧ ∀ j, (ch'.get j).pos = (ch.get j).pos ∧ (ch'.get j).mcRet = (ch.get j).mcRet ∧ (ch'.get j).c = (ch.get j).c ∧ (ch'.get j).mcOut = (ch.get j).mcOut

theorem SF_refl (ch : Chain) : SF ch ch := ⟨rfl, fun _ => ⟨rfl, rfl, rfl, rfl⟩⟩

theorem SF_trans {a b c : Chain} (h1 : SF a b) (h2 : SF b c) : SF a c :=
  ⟨h2.1.trans h1.1, fun j => ⟨(h2.2 j).1.trans (h1.2 j).1, (h2.2 j).2.1.trans (h1.2 j).2.1, (h2.2 j).2.2.1.trans (h1.2 j).2.2.1, (h2.2 j).2.2.2.trans (h1.2 j).2.2.2⟩⟩

theorem SF_upd (ch : Chain) (i : Nat) (g : IP → IP) (hg : Keeps g) : SF ch (ch.upd i g) := by
  refine ⟨upd_length ch i g, fun j => ?_⟩
  rw [get_upd]
  split
  · rename_i hc; rw [hc.1]; exact hg (ch.get i)
  · exact ⟨rfl, rfl, rfl, rfl⟩

theorem SF_map (ch : Chain) (g : IP → IP) (hg : Keeps g) : SF ch (ch.map g) := by
  refine ⟨by simp, fun j => ?_⟩
  by_cases hj : j < ch.length
  · have : Chain.get (ch.map g) j = g (ch.get j) := by
      simp [Chain.get, List.getD, List.getElem?_map, List.getElem?_eq_getElem hj]
    rw [this]; exact hg (ch.get j)
  · rw [get_default_of_ge _ j (by simpa using hj), get_default_of_ge ch j hj]
    exact ⟨rfl, rfl, rfl, rfl⟩

theorem SF_of_FR {ch ch' : Chain} (h : FR ch ch') : SF ch ch' := by
  refine ⟨h.1, fun j => ?_⟩
  have := h.2 j
  unfold flagsOnly at this
  rw [← this]
  exact ⟨rfl, rfl, rfl, rfl⟩

theorem foldl_SF {α} (f : Chain → α → Chain) (hf : ∀ c a, SF c (f c a)) : ∀ (l : List α) (c : Chain), SF c (l.foldl f c)
  | [], c => SF_refl c
  | a :: l, c => by simp only [List.foldl_cons]; exact SF_trans (hf c a) (foldl_SF f hf l (f c a))

theorem foldl_SF_pair {α β} (f : Chain × β → α → Chain × β) (hf : ∀ acc a, SF acc.1 (f acc a).1) :
    ∀ (l : List α) (acc : Chain × β), SF acc.1 (l.foldl f acc).1
  | [], acc => SF_refl acc.1
  | a :: l, acc => by simp only [List.foldl_cons]; exact SF_trans (hf acc a) (foldl_SF_pair f hf l (f acc a))

theorem ite_SF {ch x y : Chain} (c : Prop) [Decidable c] (hx : SF ch x) (hy : SF ch y) : SF ch (if c then x else y) := by
  split
  · exact hx
  · exact hy

/-! ### `providesReturns` -/

theorem depStep_SF (param : Param) (i : Nat) (t : Ty) (ch : Chain) (d : Nat) : SF ch (depStep param i t ch d) := by
  unfold depStep
  simp only []
  have k1 : Keeps (fun f => match param with
      | .inp => { f with usesIn := appendAt f.usesIn t d, uses := f.uses ++ [d] }
      | .recv => { f with usesRecv := appendAt f.usesRecv t d, uses := f.uses ++ [d] }
      | .byp => { f with usesByp := appendAt f.usesByp t d, uses := f.uses ++ [d] }) := by
    intro f; cases param <;> exact ⟨rfl, rfl, rfl, rfl⟩
  have k2 : Keeps (fun g =>
      if (param != .recv) = true then { g with usedBy := g.usedBy ++ [i], usedByOut := appendAt g.usedByOut t i }
      else { g with usedBy := g.usedBy ++ [i], usedByRet := appendAt g.usedByRet t i }) := by
    intro f; split <;> exact ⟨rfl, rfl, rfl, rfl⟩
  have k3 : Keeps (fun f => { f with usedBy := f.usedBy ++ [d] }) := fun f => ⟨rfl, rfl, rfl, rfl⟩
  have s12 := SF_trans (SF_upd ch i _ k1) (SF_upd _ d _ k2)
  apply ite_SF
  · exact SF_trans s12 (SF_upd _ i _ k3)
  · exact s12

theorem typeStep_SF (ti : TyInfo) (avail : IMap) (param : Param) (i : Nat) (ch : Chain) (t : Ty) :
    SF ch (typeStep ti avail param i ch t) := by
  unfold typeStep
  split
  · apply SF_upd; intro f; unfold errStep; cases param <;> exact ⟨rfl, rfl, rfl, rfl⟩
  · refine SF_trans (SF_upd ch i _ ?_) (foldl_SF _ (fun c d => depStep_SF param i t c d) _ _)
    intro f; unfold rmapStep; cases param <;> exact ⟨rfl, rfl, rfl, rfl⟩

theorem requireParams_SF (ti : TyInfo) (ch : Chain) (i : Nat) (avail : IMap) (param : Param) :
    SF ch (requireParams ti ch i avail param) := by
  rw [requireParams_eq]
  refine SF_trans (SF_upd ch i _ ?_) (foldl_SF _ (fun c t => typeStep_SF ti avail param i c t) _ _)
  intro f; unfold resetStep; cases param <;> exact ⟨rfl, rfl, rfl, rfl⟩

theorem provideParams_SF (ch : Chain) (i : Nat) (avail : IMap) (down : Bool) (layer : Nat) :
    SF ch (provideParams ch i avail down layer).1 := by
  unfold provideParams
  simp only []
  apply SF_upd
  intro f; cases down <;> exact ⟨rfl, rfl, rfl, rfl⟩

theorem downStep_SF (ti : TyInfo) (initPos : Option Nat) (acc : Chain × IMap) (i : Nat) : SF acc.1 (downStep ti initPos acc i).1 := by
  obtain ⟨ch, avail⟩ := acc
  unfold downStep
  simp only []
  split
  · exact SF_refl ch
  · cases initPos with
    | none =>
      simp only []
      exact SF_trans (requireParams_SF ti ch i avail .inp) (provideParams_SF _ i avail true (i + 2))
    | some ip =>
      simp only []
      split
      · have a1 : SF ch (ch.upd ip fun f => { f with bypassRmap := [] }) := SF_upd ch ip _ (fun f => ⟨rfl, rfl, rfl, rfl⟩)
        have a2 := requireParams_SF ti (ch.upd ip fun f => { f with bypassRmap := [] }) ip avail .byp
        have a3 := requireParams_SF ti (requireParams ti (ch.upd ip fun f => { f with bypassRmap := [] }) ip avail .byp) i avail .inp
        have a4 := provideParams_SF (requireParams ti (requireParams ti (ch.upd ip fun f => { f with bypassRmap := [] }) ip avail .byp) i avail .inp) i avail true (i + 2)
        exact SF_trans (SF_trans (SF_trans a1 a2) a3) a4
      · exact SF_trans (requireParams_SF ti ch i avail .inp) (provideParams_SF _ i avail true (i + 2))

theorem upStep_SF (ti : TyInfo) (n : Nat) (acc : Chain × IMap) (i : Nat) : SF acc.1 (upStep ti n acc i).1 := by
  obtain ⟨ch, avail⟩ := acc
  unfold upStep
  simp only []
  split
  · exact SF_refl ch
  · exact SF_trans (requireParams_SF ti ch i avail .recv) (provideParams_SF _ i avail false (n - i + 2))

theorem providesReturns_SF (ti : TyInfo) (ch : Chain) (initPos : Option Nat) : SF ch (providesReturns ti ch initPos) := by
  rw [providesReturns_eq]
  have h0 : SF ch (ch.map resetDeps) := SF_map ch resetDeps (fun f => ⟨rfl, rfl, rfl, rfl⟩)
  have h1 := foldl_SF_pair (downStep ti initPos) (fun acc i => downStep_SF ti initPos acc i) (List.range ch.length) (ch.map resetDeps, ([] : IMap))
  have h2 := foldl_SF_pair (upStep ti ch.length) (fun acc i => upStep_SF ti ch.length acc i) (List.range ch.length).reverse
    (((List.range ch.length).foldl (downStep ti initPos) (ch.map resetDeps, ([] : IMap))).1, ([] : IMap))
  exact SF_trans (SF_trans h0 h1) h2

/-! ### the pruning stages -/

theorem validate_SF (b : Bool) (ch ch' : Chain) (h : validate b ch = .ok ch') : SF ch ch' := SF_of_FR (validate_FR b ch ch' h)

theorem clusters_SF (ch : Chain) : SF ch (clusters ch) := by
  unfold clusters
  apply foldl_SF_pair
  intro acc i
  obtain ⟨c, leaders⟩ := acc
  simp only []
  split
  · exact SF_refl c
  · have ka : ∀ (x : Option (List Nat)), Keeps (fun f => { f with clusterMembers := x }) := fun _ _ => ⟨rfl, rfl, rfl, rfl⟩
    have kw : Keeps (fun f => { f with wantedInCluster := true }) := fun _ => ⟨rfl, rfl, rfl, rfl⟩
    cases leaders.lookup (c.get i).c.cluster with
    | none =>
      simp only []
      have s0 : SF c (c.upd i fun f => { f with clusterMembers := some [i] }) := SF_upd c i _ (ka _)
      apply ite_SF
      · exact SF_trans s0 (SF_upd (c.upd i fun f => { f with clusterMembers := some [i] }) i (fun f => { f with wantedInCluster := true }) kw)
      · exact s0
    | some l =>
      simp only []
      have s0 : SF c (c.upd l fun f => { f with clusterMembers := some ((f.clusterMembers.getD []) ++ [i]) }) :=
        SF_upd c l _ (fun f => ⟨rfl, rfl, rfl, rfl⟩)
      have s1 : SF c ((c.upd l fun f => { f with clusterMembers := some ((f.clusterMembers.getD []) ++ [i]) }).upd i
          (fun f => { f with clusterMembers := none })) :=
        SF_trans s0 (SF_upd (c.upd l fun f => { f with clusterMembers := some ((f.clusterMembers.getD []) ++ [i]) }) i
          (fun f => { f with clusterMembers := none }) (ka none))
      apply ite_SF
      · exact SF_trans s1 (SF_upd _ i (fun f => { f with wantedInCluster := true }) kw)
      · exact s1

theorem eliminateUnused_SF : ∀ (fuel : Nat) (check : List Nat) (ch : Chain), SF ch (eliminateUnused fuel check ch)
  | 0, _, ch => by simp only [eliminateUnused]; exact SF_refl ch
  | _ + 1, [], ch => by simp only [eliminateUnused]; exact SF_refl ch
  | fuel + 1, i :: check, ch => by
    simp only [eliminateUnused]
    split
    · exact eliminateUnused_SF fuel check ch
    · split
      · exact eliminateUnused_SF fuel check ch
      · refine SF_trans ?_ (eliminateUnused_SF fuel _ _)
        exact SF_upd ch i _ (fun f => ⟨rfl, rfl, rfl, rfl⟩)

theorem tryWithout_SF (ch : Chain) (without : List Nat) : SF ch (tryWithout ch without) := by
  unfold tryWithout
  split
  · split
    · exact SF_refl ch
    · simp only []
      split
      · rename_i ch2 hv
        refine SF_trans ?_ (validate_SF false _ ch2 hv)
        exact SF_upd ch _ _ (fun f => ⟨rfl, rfl, rfl, rfl⟩)
      · refine SF_trans ?_ (SF_upd _ _ _ (fun f => ⟨rfl, rfl, rfl, rfl⟩))
        exact SF_upd ch _ _ (fun f => ⟨rfl, rfl, rfl, rfl⟩)
  · simp only []
    have kf : ∀ (ok : Bool) (c : Chain) (w : Nat), SF c (c.upd w fun f =>
        { f with excluded := ok, wanted := if f.wantedInCluster then true else f.wanted }) :=
      fun ok c w => SF_upd c w _ (fun f => ⟨rfl, rfl, rfl, rfl⟩)
    have k1 : ∀ (c : Chain) (w : Nat), SF c (c.upd w fun f =>
        { f with excluded := true, wanted := if f.wantedInCluster then false else f.wanted }) :=
      fun c w => SF_upd c w _ (fun f => ⟨rfl, rfl, rfl, rfl⟩)
    split
    · rename_i ch2 hv
      refine SF_trans (SF_trans ?_ (validate_SF false _ ch2 hv)) (foldl_SF _ (kf true) _ _)
      exact foldl_SF _ k1 _ _
    · refine SF_trans ?_ (foldl_SF _ (kf false) _ _)
      exact foldl_SF _ k1 _ _

theorem proposalRound_SF (ch : Chain) : SF ch (proposalRound ch) := by
  unfold proposalRound
  apply foldl_SF
  intro c i
  simp only []
  split
  · exact SF_refl c
  · split
    · split
      · exact tryWithout_SF c _
      · exact SF_refl c
    · exact tryWithout_SF c _

theorem proposalLoop_SF : ∀ (fuel : Nat) (ch : Chain), SF ch (proposalLoop fuel ch)
  | 0, ch => SF_refl ch
  | fuel + 1, ch => by
    simp only [proposalLoop]
    split
    · exact proposalRound_SF ch
    · exact SF_trans (proposalRound_SF ch) (proposalLoop_SF fuel _)

theorem pruneStages_SF (ch : Chain) : SF ch (pruneStages ch) := by
  unfold pruneStages
  simp only []
  have m1 : SF ch (ch.map fun f => if f.cannot then { f with excluded := true, inc := false } else f) :=
    SF_map ch _ (fun f => by split <;> exact ⟨rfl, rfl, rfl, rfl⟩)
  refine SF_trans ?_ (SF_map _ _ (fun f => ⟨rfl, rfl, rfl, rfl⟩))
  refine SF_trans ?_ (proposalLoop_SF _ _)
  refine SF_trans ?_ (eliminateUnused_SF _ _ _)
  refine SF_trans ?_ (clusters_SF _)
  exact m1

/-! ### from `initState` to the chain before the final validation -/

theorem initState_get (funcs : List CP) (cannot0 : List Nat) (j : Nat) (hj : j < funcs.length) :
    ((initState funcs cannot0).get j).pos = j ∧ ((initState funcs cannot0).get j).mcRet = true := by
  unfold initState Chain.get
  have hz : j < (funcs.zip (List.range funcs.length)).length := by simp [hj]
  simp [List.getD, List.getElem?_map, List.getElem?_eq_getElem hz]

theorem inclusionBeforeFinal_static (ti : TyInfo) (funcs : List CP) (cannot0 : List Nat) (pre : Chain)
    (h : inclusionBeforeFinal ti funcs cannot0 = .ok pre) :
    pre.length = funcs.length ∧ ∀ j, j < pre.length → (pre.get j).pos = j ∧ (pre.get j).mcRet = true := by
  unfold inclusionBeforeFinal at h
  split at h
  · cases h
  · rename_i ch1 hv
    injection h with h
    subst h
    unfold firstValidation at hv
    have s : SF (initState funcs cannot0) (providesReturns ti (pruneStages ch1) (initPosOf funcs)) :=
      SF_trans (SF_trans (SF_trans (providesReturns_SF ti _ _) (validate_SF true _ ch1 hv)) (pruneStages_SF ch1)) (providesReturns_SF ti _ _)
    have hl : (providesReturns ti (pruneStages ch1) (initPosOf funcs)).length = funcs.length := by
      rw [s.1, initState_length]
    refine ⟨hl, fun j hj => ?_⟩
    have hj' : j < funcs.length := by rw [← hl]; exact hj
    have ⟨p, m⟩ := initState_get funcs cannot0 j hj'
    exact ⟨(s.2 j).1.trans p, (s.2 j).2.1.trans m⟩

theorem initState_mcOut (funcs : List CP) (cannot0 : List Nat) (j : Nat) :
    ((initState funcs cannot0).get j).mcOut = ((initState funcs cannot0).get j).c.hasMustConsume := by
  by_cases hj : j < funcs.length
  · unfold initState Chain.get
    have hz : j < (funcs.zip (List.range funcs.length)).length := by simp [hj]
    simp [List.getD, List.getElem?_map, List.getElem?_eq_getElem hz]
  · rw [get_default_of_ge _ j (by rw [initState_length]; exact hj)]
    rfl

/-- the must-consume switch of the outputs is the classification's, all the way to the final validation -/
theorem inclusionBeforeFinal_mcOut (ti : TyInfo) (funcs : List CP) (cannot0 : List Nat) (pre : Chain)
    (h : inclusionBeforeFinal ti funcs cannot0 = .ok pre) :
    ∀ j, (pre.get j).mcOut = (pre.get j).c.hasMustConsume := by
  unfold inclusionBeforeFinal at h
  split at h
  · cases h
  · rename_i ch1 hv
    injection h with h
    subst h
    unfold firstValidation at hv
    have s : SF (initState funcs cannot0) (providesReturns ti (pruneStages ch1) (initPosOf funcs)) :=
      SF_trans (SF_trans (SF_trans (providesReturns_SF ti _ _) (validate_SF true _ ch1 hv)) (pruneStages_SF ch1)) (providesReturns_SF ti _ _)
    intro j
    rw [(s.2 j).2.2.2, (s.2 j).2.2.1]
    exact initState_mcOut funcs cannot0 j

end Nject
