import NjectProofs.IncludeDesReq2
/-
  The flow computation does not look at the `inc` flag either (the validity check overwrites it before reading it): the same
  congruence as in IncludeDesReq2.lean, for the modifier "inc := true" (a Required provider starts out included).
-/
namespace Nject

/-- the same provider, initially included -/
def incT (f : IP) : IP := { f with inc := true }

/-- `y` is `x` with provider `d` initially included -/
def RelI (d : Nat) (x y : Chain) : Prop :=
  y.length = x.length ∧ ∀ j, y.get j = if j = d then incT (x.get j) else x.get j

theorem RelI_upd {d : Nat} {x y : Chain} (h : RelI d x y) (i : Nat) (g : IP → IP) (hg : ∀ f, g (incT f) = incT (g f)) :
    RelI d (x.upd i g) (y.upd i g) := by
  refine ⟨by rw [upd_length, upd_length]; exact h.1, fun j => ?_⟩
  rw [get_upd, get_upd, h.1]
  by_cases hji : j = i ∧ i < x.length
  · rw [if_pos hji, if_pos hji, h.2 i]
    by_cases hjd : j = d
    · have hid : i = d := hji.1 ▸ hjd
      rw [if_pos hid, if_pos hjd, hg]
    · have hid : ¬ i = d := fun e => hjd (hji.1.trans e)
      rw [if_neg hid, if_neg hjd]
  · rw [if_neg hji, if_neg hji]; exact h.2 j

/-- everything the flow computation reads is the same in both chains -/
theorem RelI_reads {d : Nat} {x y : Chain} (h : RelI d x y) (p : Nat) :
    (y.get p).c.loose = (x.get p).c.loose ∧ (y.get p).c.inp = (x.get p).c.inp ∧ (y.get p).c.out = (x.get p).c.out ∧
    (y.get p).c.ret = (x.get p).c.ret ∧ (y.get p).c.recv = (x.get p).c.recv ∧ (y.get p).c.byp = (x.get p).c.byp ∧
    (y.get p).c.synthetic = (x.get p).c.synthetic ∧ (y.get p).c.cls = (x.get p).c.cls ∧
    (y.get p).cannot = (x.get p).cannot ∧ (y.get p).mcOut = (x.get p).mcOut ∧ (y.get p).mcRet = (x.get p).mcRet := by
  rw [h.2 p]
  split
  · exact ⟨rfl, rfl, rfl, rfl, rfl, rfl, rfl, rfl, rfl, rfl, rfl⟩
  · exact ⟨rfl, rfl, rfl, rfl, rfl, rfl, rfl, rfl, rfl, rfl, rfl⟩

theorem RelI_ite {d : Nat} {a1 a2 b1 b2 : Chain} {c1 c2 : Prop} [Decidable c1] [Decidable c2] (hc : c1 ↔ c2)
    (h1 : RelI d a1 b1) (h2 : RelI d a2 b2) : RelI d (if c1 then a1 else a2) (if c2 then b1 else b2) := by
  by_cases h : c1
  · rw [if_pos h, if_pos (hc.mp h)]; exact h1
  · rw [if_neg h, if_neg (fun hh => h (hc.mpr hh))]; exact h2

theorem depStep_RelI {d : Nat} {x y : Chain} (h : RelI d x y) (param : Param) (i : Nat) (t : Ty) (d' : Nat) :
    RelI d (depStep param i t x d') (depStep param i t y d') := by
  cases param with
  | inp =>
    unfold depStep
    simp only []
    have h1 := RelI_upd h i (fun f => { f with usesIn := appendAt f.usesIn t d', uses := f.uses ++ [d'] }) (fun f => rfl)
    have h2 := RelI_upd h1 d' (fun g => { g with usedBy := g.usedBy ++ [i], usedByOut := appendAt g.usedByOut t i }) (fun f => rfl)
    have h3 := RelI_upd h2 i (fun f => { f with usedBy := f.usedBy ++ [d'] }) (fun f => rfl)
    have r := (RelI_reads h2 d').2.2.2.2.2.2.2.2.2.1
    refine RelI_ite ?_ h3 h2
    exact Iff.of_eq (congrArg (fun b => b = true) r.symm)
  | byp =>
    unfold depStep
    simp only []
    have h1 := RelI_upd h i (fun f => { f with usesByp := appendAt f.usesByp t d', uses := f.uses ++ [d'] }) (fun f => rfl)
    have h2 := RelI_upd h1 d' (fun g => { g with usedBy := g.usedBy ++ [i], usedByOut := appendAt g.usedByOut t i }) (fun f => rfl)
    have h3 := RelI_upd h2 i (fun f => { f with usedBy := f.usedBy ++ [d'] }) (fun f => rfl)
    have r := (RelI_reads h2 d').2.2.2.2.2.2.2.2.2.1
    refine RelI_ite ?_ h3 h2
    exact Iff.of_eq (congrArg (fun b => b = true) r.symm)
  | recv =>
    unfold depStep
    simp only []
    have h1 := RelI_upd h i (fun f => { f with usesRecv := appendAt f.usesRecv t d', uses := f.uses ++ [d'] }) (fun f => rfl)
    have h2 := RelI_upd h1 d' (fun g => { g with usedBy := g.usedBy ++ [i], usedByRet := appendAt g.usedByRet t i }) (fun f => rfl)
    have h3 := RelI_upd h2 i (fun f => { f with usedBy := f.usedBy ++ [d'] }) (fun f => rfl)
    have r := (RelI_reads h2 d').2.2.2.2.2.2.2.2.2.2
    refine RelI_ite ?_ h3 h2
    exact Iff.of_eq (congrArg (fun b => b = true) r.symm)

theorem deps_foldl_RelI {d : Nat} (param : Param) (i : Nat) (t : Ty) : ∀ (deps : List Nat) (x y : Chain), RelI d x y →
    RelI d (deps.foldl (depStep param i t) x) (deps.foldl (depStep param i t) y)
  | [], _, _, h => h
  | d' :: deps, x, y, h => by
    simp only [List.foldl_cons]
    exact deps_foldl_RelI param i t deps _ _ (depStep_RelI h param i t d')

theorem loose_RelI {d : Nat} {x y : Chain} (h : RelI d x y) :
    (fun p => (y.get p).c.loose) = (fun p => (x.get p).c.loose) := by
  funext p; exact (RelI_reads h p).1

theorem typeStep_RelI {d : Nat} {x y : Chain} (h : RelI d x y) (ti : TyInfo) (avail : IMap) (param : Param) (i : Nat) (t : Ty) :
    RelI d (typeStep ti avail param i x t) (typeStep ti avail param i y t) := by
  unfold typeStep
  rw [loose_RelI h]
  cases bestMatch ti (fun p => (x.get p).c.loose) avail t with
  | none =>
    simp only []
    cases param
    · exact RelI_upd h i (errStep .inp t) (fun f => rfl)
    · exact RelI_upd h i (errStep .recv t) (fun f => rfl)
    · exact RelI_upd h i (errStep .byp t) (fun f => rfl)
  | some r =>
    obtain ⟨found, deps⟩ := r
    simp only []
    apply deps_foldl_RelI
    cases param
    · exact RelI_upd h i (rmapStep .inp t found) (fun f => rfl)
    · exact RelI_upd h i (rmapStep .recv t found) (fun f => rfl)
    · exact RelI_upd h i (rmapStep .byp t found) (fun f => rfl)

theorem types_foldl_RelI {d : Nat} (ti : TyInfo) (avail : IMap) (param : Param) (i : Nat) : ∀ (l : List Ty) (x y : Chain), RelI d x y →
    RelI d (l.foldl (typeStep ti avail param i) x) (l.foldl (typeStep ti avail param i) y)
  | [], _, _, h => h
  | t :: l, x, y, h => by
    simp only [List.foldl_cons]
    exact types_foldl_RelI ti avail param i l _ _ (typeStep_RelI h ti avail param i t)

theorem requireParams_RelI {d : Nat} {x y : Chain} (h : RelI d x y) (ti : TyInfo) (i : Nat) (avail : IMap) (param : Param) :
    RelI d (requireParams ti x i avail param) (requireParams ti y i avail param) := by
  rw [requireParams_eq, requireParams_eq]
  have hflow : flowOfParam (y.get i) param = flowOfParam (x.get i) param := by
    have r := RelI_reads h i
    cases param
    · exact r.2.1
    · exact r.2.2.2.2.1
    · exact r.2.2.2.2.2.1
  rw [hflow]
  apply types_foldl_RelI
  cases param
  · exact RelI_upd h i (resetStep .inp) (fun f => rfl)
  · exact RelI_upd h i (resetStep .recv) (fun f => rfl)
  · exact RelI_upd h i (resetStep .byp) (fun f => rfl)

theorem provideParams_RelI {d : Nat} {x y : Chain} (h : RelI d x y) (i : Nat) (avail : IMap) (down : Bool) (layer : Nat) :
    RelI d (provideParams x i avail down layer).1 (provideParams y i avail down layer).1 ∧
    (provideParams y i avail down layer).2 = (provideParams x i avail down layer).2 := by
  unfold provideParams
  simp only []
  have r := RelI_reads h i
  refine ⟨?_, ?_⟩
  · cases down
    · exact RelI_upd h i (fun f => if false = true then { f with usedByOut := [] } else { f with usedByRet := [] }) (fun f => rfl)
    · exact RelI_upd h i (fun f => if true = true then { f with usedByOut := [] } else { f with usedByRet := [] }) (fun f => rfl)
  · rw [r.2.2.1, r.2.2.2.1, r.2.2.2.2.2.2.1]

theorem downStep_RelI {d : Nat} {x y : Chain} (h : RelI d x y) (ti : TyInfo) (initPos : Option Nat) (avail : IMap) (i : Nat) :
    RelI d (downStep ti initPos (x, avail) i).1 (downStep ti initPos (y, avail) i).1 ∧
    (downStep ti initPos (y, avail) i).2 = (downStep ti initPos (x, avail) i).2 := by
  unfold downStep
  simp only []
  have r := RelI_reads h i
  rw [r.2.2.2.2.2.2.2.2.1]
  split
  · exact ⟨h, rfl⟩
  · have tail : ∀ (c1 c2 : Chain), RelI d c1 c2 →
        RelI d (provideParams (requireParams ti c1 i avail .inp) i avail true (i + 2)).1
          (provideParams (requireParams ti c2 i avail .inp) i avail true (i + 2)).1 ∧
        (provideParams (requireParams ti c2 i avail .inp) i avail true (i + 2)).2
          = (provideParams (requireParams ti c1 i avail .inp) i avail true (i + 2)).2 :=
      fun c1 c2 hc => provideParams_RelI (requireParams_RelI hc ti i avail .inp) i avail true (i + 2)
    cases initPos with
    | none => exact tail x y h
    | some ip =>
      simp only []
      rw [r.2.2.2.2.2.2.2.1]
      split
      · apply tail
        exact requireParams_RelI (RelI_upd h ip (fun f => { f with bypassRmap := [] }) (fun f => rfl)) ti ip avail .byp
      · exact tail x y h

theorem upStep_RelI {d : Nat} {x y : Chain} (h : RelI d x y) (ti : TyInfo) (n : Nat) (avail : IMap) (i : Nat) :
    RelI d (upStep ti n (x, avail) i).1 (upStep ti n (y, avail) i).1 ∧
    (upStep ti n (y, avail) i).2 = (upStep ti n (x, avail) i).2 := by
  unfold upStep
  simp only []
  have r := RelI_reads h i
  rw [r.2.2.2.2.2.2.2.2.1]
  split
  · exact ⟨h, rfl⟩
  · exact provideParams_RelI (requireParams_RelI h ti i avail .recv) i avail false _

theorem down_foldl_RelI {d : Nat} (ti : TyInfo) (initPos : Option Nat) : ∀ (l : List Nat) (x y : Chain) (avail : IMap), RelI d x y →
    RelI d (l.foldl (downStep ti initPos) (x, avail)).1 (l.foldl (downStep ti initPos) (y, avail)).1 ∧
    (l.foldl (downStep ti initPos) (y, avail)).2 = (l.foldl (downStep ti initPos) (x, avail)).2
  | [], _, _, _, h => ⟨h, rfl⟩
  | i :: l, x, y, avail, h => by
    simp only [List.foldl_cons]
    have ⟨h1, h2⟩ := downStep_RelI h ti initPos avail i
    have e : downStep ti initPos (y, avail) i = ((downStep ti initPos (y, avail) i).1, (downStep ti initPos (x, avail) i).2) := by
      rw [← h2]
    have e2 : downStep ti initPos (x, avail) i = ((downStep ti initPos (x, avail) i).1, (downStep ti initPos (x, avail) i).2) := rfl
    rw [e, e2]
    exact down_foldl_RelI ti initPos l _ _ _ h1

theorem up_foldl_RelI {d : Nat} (ti : TyInfo) (n : Nat) : ∀ (l : List Nat) (x y : Chain) (avail : IMap), RelI d x y →
    RelI d (l.foldl (upStep ti n) (x, avail)).1 (l.foldl (upStep ti n) (y, avail)).1
  | [], _, _, _, h => h
  | i :: l, x, y, avail, h => by
    simp only [List.foldl_cons]
    have ⟨h1, h2⟩ := upStep_RelI h ti n avail i
    have e : upStep ti n (y, avail) i = ((upStep ti n (y, avail) i).1, (upStep ti n (x, avail) i).2) := by
      rw [← h2]
    have e2 : upStep ti n (x, avail) i = ((upStep ti n (x, avail) i).1, (upStep ti n (x, avail) i).2) := rfl
    rw [e, e2]
    exact up_foldl_RelI ti n l _ _ _ h1

theorem RelI_map {d : Nat} {x y : Chain} (h : RelI d x y) (g : IP → IP) (hg : ∀ f, g (incT f) = incT (g f)) (hd : g default = default) :
    RelI d (x.map g) (y.map g) := by
  refine ⟨by simp [h.1], fun j => ?_⟩
  have gx : ∀ (c : Chain), Chain.get (c.map g) j = g (c.get j) := by
    intro c
    by_cases hj : j < c.length
    · simp [Chain.get, List.getD, List.getElem?_map, List.getElem?_eq_getElem hj]
    · rw [get_default_of_ge _ j (by simpa using hj), get_default_of_ge c j hj, hd]
  rw [gx y, gx x, h.2 j]
  split
  · exact hg _
  · rfl

/-- **the flow computation ignores the Required / Desired flags** -/
theorem providesReturns_RelI {d : Nat} {x y : Chain} (h : RelI d x y) (ti : TyInfo) (initPos : Option Nat) :
    RelI d (providesReturns ti x initPos) (providesReturns ti y initPos) := by
  rw [providesReturns_eq, providesReturns_eq, h.1]
  have h0 : RelI d (x.map resetDeps) (y.map resetDeps) := RelI_map h resetDeps (fun f => rfl) rfl
  have ⟨h1, _⟩ := down_foldl_RelI ti initPos (List.range x.length) _ _ ([] : IMap) h0
  exact up_foldl_RelI ti x.length (List.range x.length).reverse _ _ ([] : IMap) h1


theorem RelI_upd_other {d : Nat} {x y : Chain} (h : RelI d x y) (i : Nat) (g : IP → IP) (hid : i ≠ d) :
    RelI d (x.upd i g) (y.upd i g) := by
  refine ⟨by rw [upd_length, upd_length]; exact h.1, fun j => ?_⟩
  rw [get_upd, get_upd, h.1]
  by_cases hji : j = i ∧ i < x.length
  · rw [if_pos hji, if_pos hji, h.2 i, if_neg hid]
    have : ¬ j = d := fun e => hid (hji.1 ▸ e)
    rw [if_neg this]
  · rw [if_neg hji, if_neg hji]; exact h.2 j

theorem chain_ext {x y : Chain} (hl : y.length = x.length) (h : ∀ j, y.get j = x.get j) : y = x := by
  apply List.ext_getElem hl
  intro k h1 h2
  have := h k
  simp only [Chain.get, List.getD, List.getElem?_eq_getElem h1, List.getElem?_eq_getElem h2, Option.getD_some] at this
  exact this

/-- the first loop of the validity check overwrites the flag: from then on the two chains are the same -/
theorem markAll_RelI {d : Nat} : ∀ (todo : List Nat) (x y : Chain) (rem : List Nat), RelI d x y → d < x.length → d ∈ todo →
    markAll todo y rem = markAll todo x rem
  | [], _, _, _, _, _, hm => by cases hm
  | i :: rest, x, y, rem, hrel, hd, hm => by
    simp only [markAll]
    have hex : (y.get i).excluded = (x.get i).excluded ∧ (y.get i).c = (x.get i).c := by
      rw [hrel.2 i]; split <;> exact ⟨rfl, rfl⟩
    rw [hex.1, hex.2]
    by_cases hid : i = d
    · -- position d: both updates overwrite the flag
      have heq : ∀ (g : IP → IP), (∀ f, g (incT f) = g f) → y.upd i g = x.upd i g := by
        intro g hg
        apply chain_ext (by rw [upd_length, upd_length]; exact hrel.1)
        intro j
        rw [get_upd, get_upd, hrel.1]
        by_cases hji : j = i ∧ i < x.length
        · rw [if_pos hji, if_pos hji, hrel.2 i, if_pos hid, hg]
        · rw [if_neg hji, if_neg hji, hrel.2 j]
          have : ¬ j = d := by
            intro e
            apply hji
            exact ⟨e.trans hid.symm, hid ▸ hd⟩
          rw [if_neg this]
      rw [heq (fun f => { f with inc := true, cannot := false }) (fun f => rfl),
          heq (fun f => { f with cannot := true, inc := false }) (fun f => rfl)]
    · have hmr : d ∈ rest := by
        rcases List.mem_cons.mp hm with e | e
        · exact absurd e.symm hid
        · exact e
      split
      · exact markAll_RelI rest _ _ _ (RelI_upd_other hrel i (fun f => { f with inc := true, cannot := false }) hid)
          (by rw [upd_length]; exact hd) hmr
      · split
        · rfl
        · exact markAll_RelI rest _ _ _ (RelI_upd_other hrel i (fun f => { f with cannot := true, inc := false }) hid)
            (by rw [upd_length]; exact hd) hmr

theorem validate_RelI {d : Nat} {x y : Chain} (b : Bool) (hrel : RelI d x y) (hd : d < x.length) : validate b y = validate b x := by
  unfold validate
  rw [hrel.1, markAll_RelI (List.range x.length) x y [] hrel hd (by simpa using hd)]

end Nject
