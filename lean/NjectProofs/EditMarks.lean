import Nject.Edit
/-
  The named edits (replace.go) read a provider's position index, its name and its three directives -- nothing else.
  Any relabelling `g` of the providers that keeps those five fields commutes with `handleReplaceByName`.
-/
namespace Nject

/-- `g` keeps what the named edits read -/
structure KeepsKeys (g : ENode → ENode) : Prop where
  idx : ∀ n, (g n).idx = n.idx
  origin : ∀ n, (g n).origin = n.origin
  rep : ∀ n, (g n).rep = n.rep
  bef : ∀ n, (g n).bef = n.bef
  aft : ∀ n, (g n).aft = n.aft

variable {g : ENode → ENode}

theorem KeepsKeys.plain (h : KeepsKeys g) (n : ENode) : (g n).plain = n.plain := by
  simp [ENode.plain, h.rep, h.bef, h.aft]

theorem KeepsKeys.tags (h : KeepsKeys g) (n : ENode) : (g n).tags = n.tags := by
  simp [ENode.tags, h.rep, h.bef, h.aft]

theorem KeepsKeys.selfTarget (h : KeepsKeys g) (n : ENode) : (g n).selfTarget = n.selfTarget := by
  simp [ENode.selfTarget, h.rep, h.bef, h.aft, h.origin]

theorem preCheck_map (h : KeepsKeys g) : ∀ l : List ENode, preCheck (l.map g) = preCheck l
  | [] => rfl
  | n :: rest => by
    simp only [List.map_cons, preCheck, h.tags, h.selfTarget, preCheck_map h rest]

theorem nameIndexGo_map (h : KeepsKeys g) : ∀ (l : List ENode) (ln : Nat) (cur : Option NameEntry) (acc : List NameEntry),
    nameIndexGo (l.map g) ln cur acc = nameIndexGo l ln cur acc
  | [], _, _, _ => rfl
  | n :: rest, ln, cur, acc => by
    simp only [List.map_cons, nameIndexGo, h.origin, h.idx, nameIndexGo_map h rest]

theorem nameIndex_map (h : KeepsKeys g) (l : List ENode) : nameIndex (l.map g) = nameIndex l :=
  nameIndexGo_map h l 0 none []

theorem idxs_map (h : KeepsKeys g) (l : List ENode) : idxs (l.map g) = idxs l := by
  simp [idxs, List.map_map, Function.comp_def, h.idx]

theorem takeWhile_map' (p : ENode → Bool) (hp : ∀ n, p (g n) = p n) : ∀ l : List ENode,
    (l.map g).takeWhile p = (l.takeWhile p).map g
  | [] => rfl
  | a :: l => by
    simp only [List.map_cons, List.takeWhile_cons, hp]
    split
    · simp [takeWhile_map' p hp l]
    · rfl

theorem dropWhile_map' (p : ENode → Bool) (hp : ∀ n, p (g n) = p n) : ∀ l : List ENode,
    (l.map g).dropWhile p = (l.dropWhile p).map g
  | [] => rfl
  | a :: l => by
    simp only [List.map_cons, List.dropWhile_cons, hp]
    split
    · exact dropWhile_map' p hp l
    · rfl

theorem posOf_map (h : KeepsKeys g) (l : List ENode) (k : Option Nat) : posOf (l.map g) k = posOf l k := by
  cases k with
  | none => simp [posOf]
  | some k =>
    simp only [posOf]
    rw [takeWhile_map' (fun n => n.idx != k) (fun n => by simp [h.idx]) l, List.length_map]

theorem headIdx_map (h : KeepsKeys g) (l : List ENode) : headIdx (l.map g) = headIdx l := by
  cases l with
  | nil => rfl
  | cons a l => simp [headIdx, h.idx]

theorem insertAtPos_map (l b : List ENode) (p : Nat) :
    insertAtPos (l.map g) (b.map g) p = (insertAtPos l b p).map g := by
  simp [insertAtPos, List.map_take, List.map_drop]

theorem cutAt_map (h : KeepsKeys g) (l : List ENode) (k : Nat) (p : ENode → Bool) (hp : ∀ n, p (g n) = p n) :
    cutAt (l.map g) k p = ((cutAt l k p).1.map g, (cutAt l k p).2.1.map g, (cutAt l k p).2.2.map g) := by
  have hk : ∀ n, (fun n : ENode => n.idx != k) (g n) = (fun n : ENode => n.idx != k) n := fun n => by simp [h.idx]
  simp only [cutAt]
  rw [dropWhile_map' _ hk, takeWhile_map' _ hk, takeWhile_map' p hp, dropWhile_map' p hp]

theorem moveBefore_map (h : KeepsKeys g) (cur : List ENode) (n : ENode) (ent : NameEntry) :
    moveBefore (cur.map g) (g n) ent =
      ((moveBefore cur n ent).1.map g, (moveBefore cur n ent).2.1.map g, (moveBefore cur n ent).2.2) := by
  simp only [moveBefore, h.idx, h.bef]
  rw [cutAt_map h cur n.idx (fun x => x.bef == n.bef) (fun x => by simp [h.bef])]
  simp only [← List.map_append, posOf_map h, insertAtPos_map, headIdx_map h]

theorem moveAfter_map (h : KeepsKeys g) (cur : List ENode) (n : ENode) (ent : NameEntry) :
    moveAfter (cur.map g) (g n) ent =
      ((moveAfter cur n ent).1.map g, (moveAfter cur n ent).2.1.map g, (moveAfter cur n ent).2.2) := by
  simp only [moveAfter, h.idx, h.aft]
  rw [cutAt_map h cur n.idx (fun x => x.aft == n.aft) (fun x => by simp [h.aft])]
  simp only [← List.map_append, posOf_map h, insertAtPos_map, headIdx_map h]

theorem moveReplace_map (h : KeepsKeys g) (cur : List ENode) (n : ENode) (ent : NameEntry) :
    moveReplace (cur.map g) (g n) ent =
      ((moveReplace cur n ent).1.map g, (moveReplace cur n ent).2.1.map g, (moveReplace cur n ent).2.2.1.map g,
        (moveReplace cur n ent).2.2.2) := by
  simp only [moveReplace, h.idx, h.rep]
  rw [cutAt_map h cur ent.first (fun x => x.origin == n.rep) (fun x => by simp [h.origin])]
  simp only [← List.map_append]
  rw [cutAt_map h _ n.idx (fun x => x.rep == n.rep) (fun x => by simp [h.rep])]
  simp only [← List.map_append, posOf_map h, insertAtPos_map, headIdx_map h, idxs_map h]

def EState.mapCur (g : ENode → ENode) (s : EState) : EState := { s with cur := s.cur.map g }

theorem editStep_map (h : KeepsKeys g) (s : EState) :
    editStep (s.mapCur g) = (match editStep s with
      | .error e => .error e
      | .ok none => .ok none
      | .ok (some s') => .ok (some (s'.mapCur g))) := by
  unfold editStep
  simp only [EState.mapCur, List.getElem?_map]
  cases hn : s.cur[s.pos]? with
  | none => rfl
  | some n =>
    simp only [Option.map, h.idx, h.plain, h.rep, h.bef, h.aft]
    by_cases h1 : (s.processed.contains n.idx || n.plain) = true
    · simp only [h1, if_true]
    · simp only [h1, if_false, Bool.false_eq_true]
      by_cases h2 : (n.rep != 0) = true
      · simp only [h2, if_true]
        cases lookupName s.names n.rep with
        | error e => rfl
        | ok ent =>
          simp only [moveReplace_map h, idxs_map h, posOf_map h]
      · simp only [h2, if_false, Bool.false_eq_true]
        by_cases h3 : (n.bef != 0) = true
        · simp only [h3, if_true]
          cases lookupName s.names n.bef with
          | error e => rfl
          | ok ent => simp only [moveBefore_map h, idxs_map h, posOf_map h]
        · simp only [h3, if_false, Bool.false_eq_true]
          cases lookupName s.names n.aft with
          | error e => rfl
          | ok ent => simp only [moveAfter_map h, idxs_map h, posOf_map h]

theorem editLoop_map (h : KeepsKeys g) : ∀ (fuel : Nat) (s : EState),
    editLoop fuel (s.mapCur g) = (editLoop fuel s).map (List.map g)
  | 0, _ => rfl
  | fuel + 1, s => by
    simp only [editLoop, editStep_map h s]
    cases editStep s with
    | error e => rfl
    | ok o =>
      cases o with
      | none => rfl
      | some s' => exact editLoop_map h fuel s'

/-- **the named edits commute with every relabelling that keeps index, name and directives**: in particular the result does
    not depend on NonFinal marks or on whether a provider is listed through a generator -/
theorem handleReplaceByName_map (h : KeepsKeys g) (l : List ENode) :
    handleReplaceByName (l.map g) = (handleReplaceByName l).map (List.map g) := by
  unfold handleReplaceByName
  have hall : (l.map g).all (·.plain) = l.all (·.plain) := by
    simp [List.all_map, Function.comp_def, h.plain]
  rw [hall, preCheck_map h, nameIndex_map h, List.length_map]
  split
  · rfl
  · cases preCheck l with
    | some e => rfl
    | none => exact editLoop_map h _ { cur := l, processed := [], names := nameIndex l, pos := 0 }

end Nject
