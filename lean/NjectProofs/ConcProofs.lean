import Nject.Conc
/-
  Invariants of the cacher and once phase machines, for every number of threads, every
  schedule and every history of keys.
-/
namespace Nject.Conc

variable {K V : Type} [DecidableEq K]

def holds (s : CState K V) (t : Nat) : Prop :=
  (∃ k, s.th t = .locked k) ∨ (∃ k v, s.th t = .called k v)

structure CInv (f : K → Nat → V) (s : CState K V) : Prop where
  lockIff : ∀ t, s.lock = some t ↔ holds s t
  cacheOK : ∀ k v, (k, v) ∈ s.cache → ∃ i, (k, i) ∈ s.calls ∧ v = f k i
  callsNodup : (s.calls.map (·.1)).Nodup
  callsCovered : ∀ k i, (k, i) ∈ s.calls → (∃ v, (k, v) ∈ s.cache) ∨ (∃ t, s.th t = .called k (f k i))
  calledOK : ∀ t k v, s.th t = .called k v → s.cache.lookup k = none ∧ ∃ i, (k, i) ∈ s.calls ∧ v = f k i
  doneOK : ∀ t k v, s.th t = .done k v → ∃ i, (k, i) ∈ s.calls ∧ v = f k i

theorem setTh_same (th : Nat → Phase K V) (t : Nat) (p : Phase K V) : setTh th t p t = p := by
  simp [setTh]

theorem setTh_other (th : Nat → Phase K V) (t t' : Nat) (p : Phase K V) (h : t' ≠ t) : setTh th t p t' = th t' := by
  simp [setTh, h]

theorem lookup_none_not_mem : ∀ (l : List (K × V)) (k : K), l.lookup k = none → ∀ v, (k, v) ∉ l
  | [], _, _, _, h => by cases h
  | (k0, v0) :: l, k, hl, v, hm => by
    simp only [List.lookup] at hl
    by_cases hk : k = k0
    · subst hk; simp at hl
    · have : (k == k0) = false := by simpa using hk
      rw [this] at hl
      rcases List.mem_cons.mp hm with heq | hin
      · cases heq; exact hk rfl
      · exact lookup_none_not_mem l k hl v hin

theorem lookup_some_mem : ∀ (l : List (K × V)) (k : K) (v : V), l.lookup k = some v → (k, v) ∈ l
  | [], _, _, h => by cases h
  | (k0, v0) :: l, k, v, h => by
    simp only [List.lookup] at h
    by_cases hk : k = k0
    · subst hk; simp at h; subst h; simp
    · have : (k == k0) = false := by simpa using hk
      rw [this] at h
      exact List.mem_cons_of_mem _ (lookup_some_mem l k v h)

theorem init_inv (f : K → Nat → V) : CInv f (CState.init : CState K V) where
  lockIff := by
    intro t; simp [CState.init, holds]
  cacheOK := by intro k v h; simp [CState.init] at h
  callsNodup := by simp [CState.init]
  callsCovered := by intro k i h; simp [CState.init] at h
  calledOK := by intro t k v h; simp [CState.init] at h
  doneOK := by intro t k v h; simp [CState.init] at h

/-- phases of other threads are untouched by a step of `t` -/
theorem holds_other (s : CState K V) (th' : Nat → Phase K V) (t t' : Nat) (p : Phase K V)
    (hth : th' = setTh s.th t p) (h : t' ≠ t) (lock' : Option Nat) (cache' : List (K × V)) (n' : Nat) (calls' : List (K × Nat)) :
    holds ({ lock := lock', cache := cache', ncalls := n', calls := calls', th := th' } : CState K V) t' ↔ holds s t' := by
  subst hth
  simp [holds, setTh_other s.th t t' p h]

theorem step_inv (f : K → Nat → V) (s s' : CState K V) (t : Nat) (k : K) (hs : CInv f s)
    (h : cstep f s t k = some s') : CInv f s' := by
  unfold cstep at h
  cases hp : s.th t with
  | idle =>
    rw [hp] at h; simp only at h; cases h
    have hnh : ¬ holds s t := by simp [holds, hp]
    refine ⟨?_, hs.cacheOK, hs.callsNodup, ?_, ?_, ?_⟩
    · intro t'
      by_cases ht : t' = t
      · subst ht
        constructor
        · intro hl; exact absurd ((hs.lockIff t').mp hl) hnh
        · intro hh; simp [holds, setTh_same] at hh
      · rw [holds_other s _ t t' _ rfl ht]; exact hs.lockIff t'
    · intro k' i hm
      rcases hs.callsCovered k' i hm with h1 | ⟨t', ht'⟩
      · exact Or.inl h1
      · refine Or.inr ⟨t', ?_⟩
        have : t' ≠ t := by intro he; subst he; rw [hp] at ht'; cases ht'
        simp [setTh_other _ _ _ _ this, ht']
    · intro t' k' v hc
      by_cases ht : t' = t
      · subst ht; simp [setTh_same] at hc
      · simp only [setTh_other _ _ _ _ ht] at hc; exact hs.calledOK t' k' v hc
    · intro t' k' v hc
      by_cases ht : t' = t
      · subst ht; simp [setTh_same] at hc
      · simp only [setTh_other _ _ _ _ ht] at hc; exact hs.doneOK t' k' v hc
  | want k' =>
    rw [hp] at h; simp only at h
    cases hl : s.lock with
    | some _ => rw [hl] at h; cases h
    | none =>
      rw [hl] at h; cases h
      refine ⟨?_, hs.cacheOK, hs.callsNodup, ?_, ?_, ?_⟩
      · intro t'
        by_cases ht : t' = t
        · subst ht; simp [holds, setTh_same]
        · rw [holds_other s _ t t' _ rfl ht]
          constructor
          · intro he; exact absurd (Option.some.inj he) (Ne.symm ht)
          · intro hh; have := (hs.lockIff t').mpr hh; rw [hl] at this; cases this
      · intro k'' i hm
        rcases hs.callsCovered k'' i hm with h1 | ⟨t', ht'⟩
        · exact Or.inl h1
        · refine Or.inr ⟨t', ?_⟩
          have : t' ≠ t := by intro he; subst he; rw [hp] at ht'; cases ht'
          simp [setTh_other _ _ _ _ this, ht']
      · intro t' k'' v hc
        by_cases ht : t' = t
        · subst ht; simp [setTh_same] at hc
        · simp only [setTh_other _ _ _ _ ht] at hc; exact hs.calledOK t' k'' v hc
      · intro t' k'' v hc
        by_cases ht : t' = t
        · subst ht; simp [setTh_same] at hc
        · simp only [setTh_other _ _ _ _ ht] at hc; exact hs.doneOK t' k'' v hc
  | locked k' =>
    rw [hp] at h; simp only at h
    have hlock : s.lock = some t := (hs.lockIff t).mpr (Or.inl ⟨k', hp⟩)
    have honly : ∀ t', holds s t' → t' = t := by
      intro t' hh
      have := (hs.lockIff t').mpr hh
      rw [hlock] at this; exact (Option.some.inj this).symm
    cases hlk : s.cache.lookup k' with
    | some v =>
      rw [hlk] at h; cases h
      have hmem := lookup_some_mem s.cache k' v hlk
      refine ⟨?_, hs.cacheOK, hs.callsNodup, ?_, ?_, ?_⟩
      · intro t'
        by_cases ht : t' = t
        · subst ht; simp [holds, setTh_same]
        · rw [holds_other s _ t t' _ rfl ht]
          constructor
          · intro he; cases he
          · intro hh; exact absurd (honly t' hh) ht
      · intro k'' i hm
        rcases hs.callsCovered k'' i hm with h1 | ⟨t', ht'⟩
        · exact Or.inl h1
        · refine Or.inr ⟨t', ?_⟩
          have : t' ≠ t := by intro he; subst he; rw [hp] at ht'; cases ht'
          simp [setTh_other _ _ _ _ this, ht']
      · intro t' k'' v' hc
        by_cases ht : t' = t
        · subst ht; simp [setTh_same] at hc
        · simp only [setTh_other _ _ _ _ ht] at hc; exact hs.calledOK t' k'' v' hc
      · intro t' k'' v' hc
        by_cases ht : t' = t
        · subst ht
          simp only [setTh_same] at hc
          cases hc
          exact hs.cacheOK k' v hmem
        · simp only [setTh_other _ _ _ _ ht] at hc; exact hs.doneOK t' k'' v' hc
    | none =>
      rw [hlk] at h; cases h
      -- the key has never been called: otherwise it is in the cache or another thread holds the lock
      have hfresh : ∀ i, (k', i) ∉ s.calls := by
        intro i hm
        rcases hs.callsCovered k' i hm with ⟨v, hv⟩ | ⟨t', ht'⟩
        · exact lookup_none_not_mem s.cache k' hlk v hv
        · have := honly t' (Or.inr ⟨k', _, ht'⟩)
          subst this; rw [hp] at ht'; cases ht'
      refine ⟨?_, ?_, ?_, ?_, ?_, ?_⟩
      · intro t'
        by_cases ht : t' = t
        · subst ht
          simp only [holds, setTh_same]
          constructor
          · intro _; exact Or.inr ⟨k', _, rfl⟩
          · intro _; exact hlock
        · rw [holds_other s _ t t' _ rfl ht]; exact hs.lockIff t'
      · intro k'' v hm
        obtain ⟨i, hi, hv⟩ := hs.cacheOK k'' v hm
        exact ⟨i, List.mem_cons_of_mem _ hi, hv⟩
      · simp only [List.map_cons, List.nodup_cons]
        refine ⟨?_, hs.callsNodup⟩
        intro hm
        obtain ⟨⟨k0, i0⟩, hm0, hk0⟩ := List.mem_map.mp hm
        simp only at hk0; subst hk0
        exact hfresh i0 hm0
      · intro k'' i hm
        rcases List.mem_cons.mp hm with heq | hin
        · cases heq
          exact Or.inr ⟨t, by simp [setTh_same]⟩
        · rcases hs.callsCovered k'' i hin with h1 | ⟨t', ht'⟩
          · exact Or.inl h1
          · refine Or.inr ⟨t', ?_⟩
            have : t' ≠ t := by intro he; subst he; rw [hp] at ht'; cases ht'
            simp [setTh_other _ _ _ _ this, ht']
      · intro t' k'' v hc
        by_cases ht : t' = t
        · subst ht
          simp only [setTh_same] at hc
          cases hc
          exact ⟨hlk, s.ncalls, by simp, rfl⟩
        · simp only [setTh_other _ _ _ _ ht] at hc
          obtain ⟨h1, i, hi, hv⟩ := hs.calledOK t' k'' v hc
          exact ⟨h1, i, List.mem_cons_of_mem _ hi, hv⟩
      · intro t' k'' v hc
        by_cases ht : t' = t
        · subst ht; simp [setTh_same] at hc
        · simp only [setTh_other _ _ _ _ ht] at hc
          obtain ⟨i, hi, hv⟩ := hs.doneOK t' k'' v hc
          exact ⟨i, List.mem_cons_of_mem _ hi, hv⟩
  | called k' v =>
    rw [hp] at h; simp only at h; cases h
    have hlock : s.lock = some t := (hs.lockIff t).mpr (Or.inr ⟨k', v, hp⟩)
    have honly : ∀ t', holds s t' → t' = t := by
      intro t' hh
      have := (hs.lockIff t').mpr hh
      rw [hlock] at this; exact (Option.some.inj this).symm
    obtain ⟨hnone, i, hi, hv⟩ := hs.calledOK t k' v hp
    refine ⟨?_, ?_, hs.callsNodup, ?_, ?_, ?_⟩
    · intro t'
      by_cases ht : t' = t
      · subst ht; simp [holds, setTh_same]
      · rw [holds_other s _ t t' _ rfl ht]
        constructor
        · intro he; cases he
        · intro hh; exact absurd (honly t' hh) ht
    · intro k'' v' hm
      rcases List.mem_cons.mp hm with heq | hin
      · cases heq; exact ⟨i, hi, hv⟩
      · exact hs.cacheOK k'' v' hin
    · intro k'' i' hm
      rcases hs.callsCovered k'' i' hm with ⟨v', hv'⟩ | ⟨t', ht'⟩
      · exact Or.inl ⟨v', List.mem_cons_of_mem _ hv'⟩
      · by_cases ht : t' = t
        · subst ht
          rw [hp] at ht'; cases ht'
          exact Or.inl ⟨f k' i', List.mem_cons_self⟩
        · exact Or.inr ⟨t', by simp [setTh_other _ _ _ _ ht, ht']⟩
    · intro t' k'' v' hc
      by_cases ht : t' = t
      · subst ht; simp [setTh_same] at hc
      · simp only [setTh_other _ _ _ _ ht] at hc
        exact absurd (honly t' (Or.inr ⟨k'', v', hc⟩)) ht
    · intro t' k'' v' hc
      by_cases ht : t' = t
      · subst ht
        simp only [setTh_same] at hc
        cases hc
        exact ⟨i, hi, hv⟩
      · simp only [setTh_other _ _ _ _ ht] at hc; exact hs.doneOK t' k'' v' hc
  | done k' v =>
    rw [hp] at h; simp only at h; cases h
    have hnh : ¬ holds s t := by simp [holds, hp]
    refine ⟨?_, hs.cacheOK, hs.callsNodup, ?_, ?_, ?_⟩
    · intro t'
      by_cases ht : t' = t
      · subst ht
        constructor
        · intro hl; exact absurd ((hs.lockIff t').mp hl) hnh
        · intro hh; simp [holds, setTh_same] at hh
      · rw [holds_other s _ t t' _ rfl ht]; exact hs.lockIff t'
    · intro k'' i hm
      rcases hs.callsCovered k'' i hm with h1 | ⟨t', ht'⟩
      · exact Or.inl h1
      · refine Or.inr ⟨t', ?_⟩
        have : t' ≠ t := by intro he; subst he; rw [hp] at ht'; cases ht'
        simp [setTh_other _ _ _ _ this, ht']
    · intro t' k'' v' hc
      by_cases ht : t' = t
      · subst ht; simp [setTh_same] at hc
      · simp only [setTh_other _ _ _ _ ht] at hc; exact hs.calledOK t' k'' v' hc
    · intro t' k'' v' hc
      by_cases ht : t' = t
      · subst ht; simp [setTh_same] at hc
      · simp only [setTh_other _ _ _ _ ht] at hc; exact hs.doneOK t' k'' v' hc

theorem run_inv (f : K → Nat → V) : ∀ (sched : List (Nat × K)) (s : CState K V), CInv f s → CInv f (crun f sched s)
  | [], s, h => h
  | (t, k) :: rest, s, h => by
    simp only [crun]
    cases hst : cstep f s t k with
    | none => exact run_inv f rest s h
    | some s' => exact run_inv f rest s' (step_inv f s s' t k h hst)

end Nject.Conc

namespace Nject.Conc

variable {V : Type}

structure OInv (body : Nat → V) (s : OState V) : Prop where
  runnerIff : ∀ t, s.runner = some t ↔ s.th t = .entered
  fin : s.finished = true → s.out = some (body 0) ∧ s.nruns = 1 ∧ s.runner = none
  notFin : s.finished = false → s.nruns = 0 ∧ s.out = none
  doneOK : ∀ t v, s.th t = .done v → s.finished = true ∧ v = body 0

theorem setOTh_same (th : Nat → OPhase V) (t : Nat) (p : OPhase V) : setOTh th t p t = p := by simp [setOTh]
theorem setOTh_other (th : Nat → OPhase V) (t t' : Nat) (p : OPhase V) (h : t' ≠ t) : setOTh th t p t' = th t' := by
  simp [setOTh, h]

theorem oinit_inv (body : Nat → V) : OInv body (OState.init : OState V) where
  runnerIff := by intro t; simp [OState.init]
  fin := by intro h; simp [OState.init] at h
  notFin := by intro _; simp [OState.init]
  doneOK := by intro t v h; simp [OState.init] at h

theorem ostep_inv (body : Nat → V) (dflt : V) (s s' : OState V) (t : Nat) (hs : OInv body s)
    (h : ostep body dflt s t = some s') : OInv body s' := by
  unfold ostep at h
  cases hp : s.th t with
  | idle =>
    rw [hp] at h; simp only at h
    by_cases hf : s.finished = true
    · simp only [hf, if_true] at h; cases h
      obtain ⟨ho, hn, hr⟩ := hs.fin hf
      refine ⟨?_, fun _ => ⟨ho, hn, hr⟩, fun h' => by simp [hf] at h', ?_⟩
      · intro t'
        by_cases ht : t' = t
        · subst ht; simp [setOTh_same, hr]
        · simp only [setOTh_other _ _ _ _ ht]; first | exact hs.runnerIff t' | (have h9 := hs.runnerIff t'; simp_all)
      · intro t' v hd
        by_cases ht : t' = t
        · subst ht; simp only [setOTh_same] at hd; cases hd; exact ⟨by simp_all, by simp [ho]⟩
        · simp only [setOTh_other _ _ _ _ ht] at hd; first | exact hs.doneOK t' v hd | (have h9 := hs.doneOK t' v hd; simp_all)
    · have hf' : s.finished = false := by simpa using hf
      simp only [hf', Bool.false_eq_true, if_false] at h
      cases hr : s.runner with
      | none =>
        rw [hr] at h; cases h
        refine ⟨?_, fun h' => by simp [hf'] at h', fun _ => hs.notFin hf', ?_⟩
        · intro t'
          by_cases ht : t' = t
          · subst ht; simp [setOTh_same]
          · simp only [setOTh_other _ _ _ _ ht]
            constructor
            · intro he; exact absurd (Option.some.inj he) (Ne.symm ht)
            · intro he; have := (hs.runnerIff t').mpr he; rw [hr] at this; cases this
        · intro t' v hd
          by_cases ht : t' = t
          · subst ht; simp [setOTh_same] at hd
          · simp only [setOTh_other _ _ _ _ ht] at hd; first | exact hs.doneOK t' v hd | (have h9 := hs.doneOK t' v hd; simp_all)
      | some r =>
        rw [hr] at h; cases h
        refine ⟨?_, fun h' => by simp [hf'] at h', fun _ => hs.notFin hf', ?_⟩
        · intro t'
          by_cases ht : t' = t
          · subst ht
            simp only [setOTh_same]
            constructor
            · intro he
              have h9 := hs.runnerIff t'; simp_all
            · intro he; cases he
          · simp only [setOTh_other _ _ _ _ ht]; first | exact hs.runnerIff t' | (have h9 := hs.runnerIff t'; simp_all)
        · intro t' v hd
          by_cases ht : t' = t
          · subst ht; simp [setOTh_same] at hd
          · simp only [setOTh_other _ _ _ _ ht] at hd; first | exact hs.doneOK t' v hd | (have h9 := hs.doneOK t' v hd; simp_all)
  | entered =>
    rw [hp] at h; simp only at h; cases h
    have hrun : s.runner = some t := (hs.runnerIff t).mpr hp
    have hnf : s.finished = false := by
      cases hf : s.finished with
      | false => rfl
      | true => have := (hs.fin hf).2.2; rw [hrun] at this; cases this
    obtain ⟨hn0, _⟩ := hs.notFin hnf
    refine ⟨?_, fun _ => ⟨by simp [hn0], by simp [hn0], rfl⟩, fun h' => by simp at h', ?_⟩
    · intro t'
      by_cases ht : t' = t
      · subst ht; simp [setOTh_same]
      · simp only [setOTh_other _ _ _ _ ht]
        constructor
        · intro he; cases he
        · intro he
          have := (hs.runnerIff t').mpr he
          rw [hrun] at this; exact absurd (Option.some.inj this).symm ht
    · intro t' v hd
      by_cases ht : t' = t
      · subst ht; simp only [setOTh_same] at hd; cases hd; exact ⟨rfl, by simp [hn0]⟩
      · simp only [setOTh_other _ _ _ _ ht] at hd
        have := (hs.doneOK t' v hd).1; rw [hnf] at this; cases this
  | waiting =>
    rw [hp] at h; simp only at h
    by_cases hf : s.finished = true
    · simp only [hf, if_true] at h; cases h
      obtain ⟨ho, hn, hr⟩ := hs.fin hf
      refine ⟨?_, fun _ => ⟨ho, hn, hr⟩, fun h' => by simp [hf] at h', ?_⟩
      · intro t'
        by_cases ht : t' = t
        · subst ht; simp [setOTh_same, hr]
        · simp only [setOTh_other _ _ _ _ ht]; first | exact hs.runnerIff t' | (have h9 := hs.runnerIff t'; simp_all)
      · intro t' v hd
        by_cases ht : t' = t
        · subst ht; simp only [setOTh_same] at hd; cases hd; exact ⟨by simp_all, by simp [ho]⟩
        · simp only [setOTh_other _ _ _ _ ht] at hd; first | exact hs.doneOK t' v hd | (have h9 := hs.doneOK t' v hd; simp_all)
    · have hf' : s.finished = false := by simpa using hf
      simp [hf'] at h
  | done v =>
    rw [hp] at h; simp only at h; cases h
    refine ⟨?_, hs.fin, hs.notFin, ?_⟩
    · intro t'
      by_cases ht : t' = t
      · subst ht
        simp only [setOTh_same]
        constructor
        · intro he; have := (hs.runnerIff t').mp he; rw [hp] at this; cases this
        · intro he; cases he
      · simp only [setOTh_other _ _ _ _ ht]; first | exact hs.runnerIff t' | (have h9 := hs.runnerIff t'; simp_all)
    · intro t' v' hd
      by_cases ht : t' = t
      · subst ht; simp [setOTh_same] at hd
      · simp only [setOTh_other _ _ _ _ ht] at hd; first | exact hs.doneOK t' v' hd | (have h9 := hs.doneOK t' v' hd; simp_all)

theorem orun_inv (body : Nat → V) (dflt : V) : ∀ (sched : List Nat) (s : OState V), OInv body s → OInv body (orun body dflt sched s)
  | [], s, h => h
  | t :: rest, s, h => by
    simp only [orun]
    cases hst : ostep body dflt s t with
    | none => exact orun_inv body dflt rest s h
    | some s' => exact orun_inv body dflt rest s' (ostep_inv body dflt s s' t h hst)

end Nject.Conc

namespace Nject.Conc

structure LInv (s : LState) : Prop where
  dbg : s.debug = true → ∃ t, s.writer = some t ∧ s.th t = .capturing
  wr : ∀ t, s.writer = some t → s.th t = .capturing
  noStuck : ∀ t, s.th t ≠ .stuck

theorem setL_same (th : Nat → LPhase) (t : Nat) (p : LPhase) : setL th t p t = p := by simp [setL]
theorem setL_other (th : Nat → LPhase) (t t' : Nat) (p : LPhase) (h : t' ≠ t) : setL th t p t' = th t' := by simp [setL, h]

theorem linit_inv : LInv LState.init where
  dbg := by intro h; simp [LState.init] at h
  wr := by intro t h; simp [LState.init] at h
  noStuck := by intro t; simp [LState.init]

/-- a step of `t` that leaves the writer alone and moves `t` between non-capturing phases -/
theorem linv_frame (s : LState) (t : Nat) (p : LPhase) (r : Nat) (hs : LInv s) (hp : s.th t ≠ .capturing)
    (hp' : p ≠ .stuck) : LInv { s with readers := r, th := setL s.th t p } := by
  refine ⟨?_, ?_, ?_⟩
  · intro hd
    obtain ⟨t0, hw, hc⟩ := hs.dbg hd
    have : t0 ≠ t := by intro he; subst he; exact hp hc
    exact ⟨t0, hw, by simp [setL_other _ _ _ _ this, hc]⟩
  · intro t0 hw
    have hc := hs.wr t0 hw
    have : t0 ≠ t := by intro he; subst he; exact hp hc
    simp [setL_other _ _ _ _ this, hc]
  · intro t'
    by_cases ht : t' = t
    · subst ht; simp [setL_same, hp']
    · simp only [setL_other _ _ _ _ ht]; exact hs.noStuck t'

theorem lstep_inv (s s' : LState) (t : Nat) (c : Bool) (hs : LInv s) (h : lstep s t c = some s') : LInv s' := by
  unfold lstep at h
  cases hp : s.th t with
  | idle =>
    rw [hp] at h; simp only at h
    cases c with
    | true =>
      simp only [if_true] at h
      split at h
      · rename_i hfree
        simp only [Bool.and_eq_true, Option.isNone_iff_eq_none, beq_iff_eq] at hfree
        -- the flag cannot be set: nobody holds the write lock
        have hnd : s.debug = false := by
          cases hd : s.debug with
          | false => rfl
          | true => obtain ⟨t0, hw, _⟩ := hs.dbg hd; rw [hfree.1] at hw; cases hw
        simp only [hnd, Bool.false_eq_true, if_false] at h
        cases h
        refine ⟨fun _ => ⟨t, rfl, by simp [setL_same]⟩, ?_, ?_⟩
        · intro t' ht'; cases ht'; simp [setL_same]
        · intro t'
          by_cases ht : t' = t
          · subst ht; simp [setL_same]
          · simp only [setL_other _ _ _ _ ht]; exact hs.noStuck t'
      · cases h
    | false =>
      simp only [Bool.false_eq_true, if_false] at h
      split at h
      · cases h
        exact linv_frame s t .reading _ hs (by rw [hp]; simp) (by simp)
      · cases h
  | reading =>
    rw [hp] at h; simp only at h; cases h
    exact linv_frame s t .idle _ hs (by rw [hp]; simp) (by simp)
  | capturing =>
    rw [hp] at h; simp only at h; cases h
    refine ⟨?_, ?_, ?_⟩
    · intro hd; simp at hd
    · intro t' ht'; simp at ht'
    intro t'
    by_cases ht : t' = t
    · subst ht; simp [setL_same]
    · simp only [setL_other _ _ _ _ ht]; exact hs.noStuck t'
  | stuck => exact absurd hp (hs.noStuck t)

theorem lrun_inv : ∀ (sched : List (Nat × Bool)) (s : LState), LInv s → LInv (lrun sched s)
  | [], s, h => h
  | (t, c) :: rest, s, h => by
    simp only [lrun]
    cases hst : lstep s t c with
    | none => exact lrun_inv rest s h
    | some s' => exact lrun_inv rest s' (lstep_inv s s' t c h hst)

end Nject.Conc
