import NjectProofs.IncludeProvDown
/-
  Where the sources recorded for an INPUT come from (the downward pass of `providesReturns`): whoever is listed in
  `usesIn` of provider `k` under the requested type `t` stands before `k` and outputs `t` itself or a type that
  implements `t` (an interface parameter matched to a Loose provider).  Used for C01 in `NjectProps/C01Supply2.lean`.
-/
namespace Nject

/-- `bestMatch` answers with the key of an entry of the table, and the dependencies are on that entry's list -/
theorem bm_entry {ti : TyInfo} {loose : Nat → List Ty} {m : IMap} {want found : Ty} {deps : List Nat}
    (hb : bestMatch ti loose m want = some (found, deps)) :
    ∃ e ∈ m, e.1 = found ∧ (∀ d ∈ deps, d ∈ e.2.2) ∧ (found = want ∨ ti.implements found want = true) ∧
      (e.2.2 ≠ [] → deps ≠ []) := by
  unfold bestMatch at hb
  split at hb
  · rename_i e he
    simp only [Option.some.injEq, Prod.mk.injEq] at hb
    have hk : e.1 = want := by simpa using List.find?_some he
    refine ⟨e, List.mem_of_find?_eq_some he, hk.trans hb.1, fun d hd => by rw [← hb.2] at hd; exact hd, Or.inl hb.1.symm, ?_⟩
    intro hne; rw [← hb.2]; exact hne
  · split at hb
    · cases hb
    · simp only [] at hb
      split at hb
      · cases hb
      · rename_i be hbe
        split at hb
        · cases hb
        · rename_i hls
          simp only [Option.some.injEq, Prod.mk.injEq] at hb
          have hmem := foldl_best_mem _ (by
            intro b e r hr
            cases b with
            | none => simp at hr; exact Or.inl hr.symm
            | some be' =>
              simp only [] at hr
              split at hr
              · simp at hr; exact Or.inl hr.symm
              · exact Or.inr hr) _ _ _ hbe
          rcases hmem with hmem | hmem
          · have hf := List.mem_filter.mp hmem
            refine ⟨be, hf.1, hb.1, fun d hd => ?_, Or.inr ?_, fun _ => ?_⟩
            · rw [← hb.2] at hd; exact (List.mem_filter.mp hd).1
            · rw [← hb.1]; exact hf.2
            · rw [← hb.2]; intro he; rw [he] at hls; simp at hls
          · cases hmem

/-- where the members of an entry of the extended table come from -/
theorem add_back {m : IMap} {t : Ty} {layer p : Nat} {e : Ty × Nat × List Nat} {q : Nat}
    (he : e ∈ m.add t layer p) (hq : q ∈ e.2.2) : (∃ e0 ∈ m, e0.1 = e.1 ∧ q ∈ e0.2.2) ∨ (e.1 = t ∧ q = p) := by
  unfold IMap.add at he
  split at he
  · obtain ⟨e0, he0, rfl⟩ := List.mem_map.mp he
    by_cases hk : e0.1 == t
    · have he1 : (if (e0.1 == t) = true then (t, e0.2.1, e0.2.2 ++ [p]) else e0) = (t, e0.2.1, e0.2.2 ++ [p]) := by simp [hk]
      rw [he1] at hq ⊢
      have hk' : e0.1 = t := by simpa using hk
      rcases List.mem_append.mp hq with hq | hq
      · exact Or.inl ⟨e0, he0, hk', hq⟩
      · exact Or.inr ⟨rfl, by simpa using hq⟩
    · have he1 : (if (e0.1 == t) = true then (t, e0.2.1, e0.2.2 ++ [p]) else e0) = e0 := by simp [hk]
      rw [he1] at hq ⊢
      exact Or.inl ⟨e0, he0, rfl, hq⟩
  · rcases List.mem_append.mp he with he | he
    · exact Or.inl ⟨e, he, rfl, hq⟩
    · have : e = (t, layer, [p]) := by simpa using he
      rw [this] at hq ⊢
      right; exact ⟨rfl, by simpa using hq⟩

theorem add_nonempty {m : IMap} {t : Ty} {layer p : Nat} (hm : ∀ e ∈ m, e.2.2 ≠ []) : ∀ e ∈ m.add t layer p, e.2.2 ≠ [] := by
  intro e he
  unfold IMap.add at he
  split at he
  · obtain ⟨e0, he0, rfl⟩ := List.mem_map.mp he
    by_cases hk : e0.1 == t
    · simp [hk]
    · simp only [hk]; exact hm e0 he0
  · rcases List.mem_append.mp he with he | he
    · exact hm e he
    · have : e = (t, layer, [p]) := by simpa using he
      rw [this]; simp

theorem adds_back (layer i : Nat) : ∀ (l : List Ty) (m : IMap),
    (∀ e ∈ l.foldl (fun m t => m.add t layer i) m, ∀ p ∈ e.2.2, (∃ e0 ∈ m, e0.1 = e.1 ∧ p ∈ e0.2.2) ∨ (p = i ∧ e.1 ∈ l)) ∧
    ((∀ e ∈ m, e.2.2 ≠ []) → ∀ e ∈ l.foldl (fun m t => m.add t layer i) m, e.2.2 ≠ [])
  | [], m => ⟨fun e he p hp => Or.inl ⟨e, he, rfl, hp⟩, fun h => h⟩
  | t :: l, m => by
    simp only [List.foldl_cons]
    have ⟨r1, r2⟩ := adds_back layer i l (m.add t layer i)
    refine ⟨fun e he p hp => ?_, fun hm => r2 (add_nonempty hm)⟩
    rcases r1 e he p hp with ⟨e0, he0, hk0, hp0⟩ | ⟨hpi, hel⟩
    · rcases add_back he0 hp0 with ⟨e1, he1, hk1, hp1⟩ | ⟨hk1, hp1⟩
      · exact Or.inl ⟨e1, he1, hk1.trans hk0, hp1⟩
      · right; exact ⟨hp1, by rw [← hk0, hk1]; simp⟩
    · right; exact ⟨hpi, List.mem_cons_of_mem _ hel⟩

/-- what a recorded source `p` of the requested type `t` of provider `k` looks like -/
def GoodS (ti : TyInfo) (O : Nat → List Ty) (k : Nat) (t : Ty) (p : Nat) : Prop :=
  p < k ∧ ∃ x, x ∈ O p ∧ (x = t ∨ ti.implements x t = true)

/-- the invariant of the downward pass; `O` are the (static) output types by position -/
structure SU (ti : TyInfo) (O : Nat → List Ty) (ch : Chain) : Prop where
  hc : ∀ j, (ch.get j).c.out = O j
  a : ∀ k e p, e ∈ (ch.get k).usesIn → p ∈ e.2 → GoodS ti O k e.1 p

theorem SU_frame {ti O ch} (h : SU ti O ch) (k : Nat) (g : IP → IP)
    (hg : ∀ f, (g f).usesIn = f.usesIn ∧ (g f).c = f.c) : SU ti O (ch.upd k g) := by
  have hu : ∀ j, ((ch.upd k g).get j).usesIn = (ch.get j).usesIn ∧ ((ch.upd k g).get j).c = (ch.get j).c := by
    intro j
    rw [get_upd]
    split
    · rename_i hc; rw [hc.1]; exact hg _
    · exact ⟨rfl, rfl⟩
  exact
    { hc := fun j => by rw [(hu j).2]; exact h.hc j
      a := fun k' e p he hp => h.a k' e p (by rw [← (hu k').1]; exact he) hp }

theorem SU_shrink {ti O ch} (h : SU ti O ch) (k : Nat) (g : IP → IP)
    (hg : ∀ f, (∀ e ∈ (g f).usesIn, e ∈ f.usesIn) ∧ (g f).c = f.c) : SU ti O (ch.upd k g) := by
  exact
    { hc := fun j => by
        rw [get_upd]; split
        · rename_i hj; rw [(hg _).2, hj.1]; exact h.hc k
        · exact h.hc j
      a := fun k' e p he hp => by
        rw [get_upd] at he
        split at he
        · rename_i hj
          rw [hj.1]; exact h.a k e p ((hg _).1 e he) hp
        · exact h.a k' e p he hp }

theorem SU_addSource {ti O ch} (h : SU ti O ch) (k d : Nat) (t : Ty) (g : IP → IP)
    (hg : ∀ f, (g f).usesIn = appendAt f.usesIn t d ∧ (g f).c = f.c)
    (hgood : GoodS ti O k t d) : SU ti O (ch.upd k g) := by
  exact
    { hc := fun j => by
        rw [get_upd]
        split
        · rename_i hj; rw [(hg _).2, hj.1]; exact h.hc k
        · exact h.hc j
      a := fun k' e p he hp => by
        rw [get_upd] at he
        split at he
        · rename_i hj
          rw [(hg _).1] at he
          rcases mem_appendAt_entry he hp with ⟨e0, he0, hk0, hp0⟩ | ⟨hkt, hpd⟩
          · rw [hj.1, ← hk0]; exact h.a k e0 p he0 hp0
          · rw [hj.1, hkt, hpd]; exact hgood
        · exact h.a k' e p he hp }

theorem SU_ite {ti O} {x y : Chain} (c : Prop) [Decidable c] (hx : SU ti O x) (hy : SU ti O y) :
    SU ti O (if c then x else y) := by
  split
  · exact hx
  · exact hy

theorem depStep_SU {ti O ch} {param : Param} {k : Nat} {t : Ty} {d : Nat}
    (h : SU ti O ch) (hgood : param = .inp → GoodS ti O k t d) : SU ti O (depStep param k t ch d) := by
  cases param with
  | inp =>
    unfold depStep
    simp only []
    have h1 := SU_addSource h k d t (fun f => { f with usesIn := appendAt f.usesIn t d, uses := f.uses ++ [d] })
      (fun f => ⟨rfl, rfl⟩) (hgood rfl)
    have h2 := SU_frame h1 d (fun g => { g with usedBy := g.usedBy ++ [k], usedByOut := appendAt g.usedByOut t k }) (fun f => ⟨rfl, rfl⟩)
    apply SU_ite
    · exact SU_frame h2 k (fun f => { f with usedBy := f.usedBy ++ [d] }) (fun f => ⟨rfl, rfl⟩)
    · exact h2
  | byp =>
    unfold depStep
    simp only []
    have h1 := SU_frame h k (fun f => { f with usesByp := appendAt f.usesByp t d, uses := f.uses ++ [d] }) (fun f => ⟨rfl, rfl⟩)
    have h2 := SU_frame h1 d (fun g => { g with usedBy := g.usedBy ++ [k], usedByOut := appendAt g.usedByOut t k }) (fun f => ⟨rfl, rfl⟩)
    apply SU_ite
    · exact SU_frame h2 k (fun f => { f with usedBy := f.usedBy ++ [d] }) (fun f => ⟨rfl, rfl⟩)
    · exact h2
  | recv =>
    unfold depStep
    simp only []
    have h1 := SU_frame h k (fun f => { f with usesRecv := appendAt f.usesRecv t d, uses := f.uses ++ [d] }) (fun f => ⟨rfl, rfl⟩)
    have h2 := SU_frame h1 d (fun g => { g with usedBy := g.usedBy ++ [k], usedByRet := appendAt g.usedByRet t k }) (fun f => ⟨rfl, rfl⟩)
    apply SU_ite
    · exact SU_frame h2 k (fun f => { f with usedBy := f.usedBy ++ [d] }) (fun f => ⟨rfl, rfl⟩)
    · exact h2

theorem deps_foldl_SU {ti O} {param : Param} {k : Nat} {t : Ty} :
    ∀ (deps : List Nat) (ch : Chain), SU ti O ch → (param = .inp → ∀ d ∈ deps, GoodS ti O k t d) →
      SU ti O (deps.foldl (depStep param k t) ch)
  | [], _, h, _ => h
  | d :: deps, ch, h, hd => by
    simp only [List.foldl_cons]
    exact deps_foldl_SU deps _ (depStep_SU h (fun hp => hd hp d (by simp))) (fun hp x hx => hd hp x (by simp [hx]))

/-- the table lists providers before `lo` only, each under a type it outputs, and no entry is empty -/
def AvS (O : Nat → List Ty) (lo : Nat) (avail : IMap) : Prop :=
  ∀ e ∈ avail, (∀ p ∈ e.2.2, p < lo ∧ e.1 ∈ O p) ∧ e.2.2 ≠ []

theorem typeStep_SU {ti : TyInfo} {O ch avail} {param : Param} {k : Nat} {t : Ty}
    (h : SU ti O ch) (hav : param = .inp → AvS O k avail) : SU ti O (typeStep ti avail param k ch t) := by
  unfold typeStep
  cases hb : bestMatch ti (fun p => (ch.get p).c.loose) avail t with
  | none =>
    simp only []
    exact SU_frame h k _ (fun f => by unfold errStep; cases param <;> exact ⟨rfl, rfl⟩)
  | some r =>
    obtain ⟨found, deps⟩ := r
    simp only []
    apply deps_foldl_SU deps _ (SU_frame h k _ (fun f => by unfold rmapStep; cases param <;> exact ⟨rfl, rfl⟩))
    intro hp d hd
    obtain ⟨e, he, hk, hde, hfw, _⟩ := bm_entry hb
    have ⟨hlt, hout⟩ := ((hav hp) e he).1 d (hde d hd)
    exact ⟨hlt, found, by rw [← hk]; exact hout, hfw⟩

theorem types_foldl_SU {ti : TyInfo} {O avail} {param : Param} {k : Nat} (hav : param = .inp → AvS O k avail) :
    ∀ (l : List Ty) (ch : Chain), SU ti O ch → SU ti O (l.foldl (typeStep ti avail param k) ch)
  | [], _, h => h
  | t :: l, ch, h => by
    simp only [List.foldl_cons]
    exact types_foldl_SU hav l _ (typeStep_SU h hav)

theorem requireParams_SU {ti : TyInfo} {O ch avail} {param : Param} {k : Nat}
    (h : SU ti O ch) (hav : param = .inp → AvS O k avail) : SU ti O (requireParams ti ch k avail param) := by
  rw [requireParams_eq]
  refine types_foldl_SU hav _ _ (SU_shrink h k _ (fun f => ?_))
  unfold resetStep
  cases param
  · exact ⟨fun e he => (by cases he), rfl⟩
  · exact ⟨fun e he => he, rfl⟩
  · exact ⟨fun e he => he, rfl⟩

theorem AvS_mono {O lo avail} (h : AvS O lo avail) : AvS O (lo + 1) avail :=
  fun e he => ⟨fun p hp => ⟨Nat.lt_succ_of_lt (((h e he).1 p hp).1), ((h e he).1 p hp).2⟩, (h e he).2⟩

theorem downStep_SU {ti : TyInfo} {O initPos} {acc : Chain × IMap} {i : Nat}
    (h : SU ti O acc.1) (hav : AvS O i acc.2) :
    SU ti O (downStep ti initPos acc i).1 ∧ AvS O (i + 1) (downStep ti initPos acc i).2 := by
  obtain ⟨ch, avail⟩ := acc
  unfold downStep
  simp only []
  split
  · exact ⟨h, AvS_mono hav⟩
  · have tail : ∀ c1 : Chain, SU ti O c1 →
        SU ti O (provideParams (requireParams ti c1 i avail .inp) i avail true (i + 2)).1 ∧
        AvS O (i + 1) (provideParams (requireParams ti c1 i avail .inp) i avail true (i + 2)).2 := by
      intro c1 h1
      have h2 : SU ti O (requireParams ti c1 i avail .inp) := requireParams_SU h1 (fun _ => hav)
      unfold provideParams
      simp only [if_true]
      refine ⟨SU_frame h2 i _ (fun f => ⟨rfl, rfl⟩), ?_⟩
      intro e he
      have ⟨s1, s2⟩ := adds_back (i + 2) i (((requireParams ti c1 i avail .inp).get i).c.out.filter
        (fun t => t != tNoType && (t != tUnused || ((requireParams ti c1 i avail .inp).get i).c.synthetic))) avail
      refine ⟨fun p hp => ?_, s2 (fun e0 he0 => (hav e0 he0).2) e he⟩
      rcases s1 e he p hp with ⟨e0, he0, hk0, hp0⟩ | ⟨hpi, hel⟩
      · have := (hav e0 he0).1 p hp0
        exact ⟨Nat.lt_succ_of_lt this.1, by rw [← hk0]; exact this.2⟩
      · rw [hpi]
        refine ⟨Nat.lt_succ_self i, ?_⟩
        rw [← h2.hc i]
        exact (List.mem_filter.mp hel).1
    cases initPos with
    | none => exact tail ch h
    | some ip =>
      simp only []
      split
      · apply tail
        exact requireParams_SU (SU_frame h ip _ (fun f => ⟨rfl, rfl⟩)) (fun hp => by cases hp)
      · exact tail ch h

theorem down_foldl_SU {ti : TyInfo} {O initPos} : ∀ (k lo : Nat) (acc : Chain × IMap), SU ti O acc.1 → AvS O lo acc.2 →
    SU ti O (((List.range' lo k).foldl (downStep ti initPos) acc).1)
  | 0, _, _, h, _ => by simpa using h
  | k + 1, lo, acc, h, hav => by
    rw [List.range'_succ]
    simp only [List.foldl_cons]
    have ⟨h1, h2⟩ := downStep_SU (ti := ti) (initPos := initPos) h hav
    exact down_foldl_SU k (lo + 1) _ h1 h2

/-! ### the upward pass does not touch `usesIn` -/

theorem depStep_up_usesIn (i : Nat) (t : Ty) (ch : Chain) (d : Nat) :
    Pres (·.usesIn) ch (depStep .recv i t ch d) := by
  unfold depStep
  simp only []
  apply ite_Pres
  · refine Pres_trans ?_ (Pres_upd _ _ _ _ (fun f => rfl))
    refine Pres_trans ?_ (Pres_upd _ _ _ _ (fun f => rfl))
    exact Pres_upd _ _ _ _ (fun f => rfl)
  · refine Pres_trans ?_ (Pres_upd _ _ _ _ (fun f => rfl))
    exact Pres_upd _ _ _ _ (fun f => rfl)

theorem typeStep_up_usesIn (ti : TyInfo) (avail : IMap) (i : Nat) (ch : Chain) (t : Ty) :
    Pres (·.usesIn) ch (typeStep ti avail .recv i ch t) := by
  unfold typeStep
  split
  · exact Pres_upd _ ch i _ (fun f => rfl)
  · refine Pres_trans ?_ (foldl_Pres _ _ (fun c d => depStep_up_usesIn i t c d) _ _)
    exact Pres_upd _ ch i _ (fun f => rfl)

theorem requireParams_up_usesIn (ti : TyInfo) (ch : Chain) (i : Nat) (avail : IMap) :
    Pres (·.usesIn) ch (requireParams ti ch i avail .recv) := by
  rw [requireParams_eq]
  refine Pres_trans ?_ (foldl_Pres _ _ (fun c t => typeStep_up_usesIn ti avail i c t) _ _)
  exact Pres_upd _ ch i _ (fun f => rfl)

theorem upStep_usesIn (ti : TyInfo) (n : Nat) (acc : Chain × IMap) (i : Nat) :
    Pres (·.usesIn) acc.1 (upStep ti n acc i).1 := by
  obtain ⟨ch, avail⟩ := acc
  unfold upStep
  simp only []
  split
  · exact Pres_refl _ _
  · unfold provideParams
    simp only [Bool.false_eq_true, if_false]
    exact Pres_trans (requireParams_up_usesIn ti ch i avail) (Pres_upd _ _ i _ (fun f => rfl))

theorem up_foldl_usesIn (ti : TyInfo) (n : Nat) : ∀ (l : List Nat) (acc : Chain × IMap),
    Pres (·.usesIn) acc.1 (l.foldl (upStep ti n) acc).1
  | [], acc => Pres_refl _ _
  | i :: l, acc => by
    simp only [List.foldl_cons]
    exact Pres_trans (upStep_usesIn ti n acc i) (up_foldl_usesIn ti n l _)

/-- **where recorded sources of inputs come from**: after `providesReturns`, whoever is listed as a source of the
    requested type `e.1` of provider `k` is listed before `k` and outputs that type or a type implementing it -/
theorem providesReturns_supply (ti : TyInfo) (ch : Chain) (initPos : Option Nat) :
    ∀ k e p, e ∈ ((providesReturns ti ch initPos).get k).usesIn → p ∈ e.2 →
      p < k ∧ ∃ x, x ∈ ((providesReturns ti ch initPos).get p).c.out ∧ (x = e.1 ∨ ti.implements x e.1 = true) := by
  have hsf := providesReturns_SF ti ch initPos
  rw [providesReturns_eq] at hsf ⊢
  have d0 : SU ti (fun j => (ch.get j).c.out) (ch.map resetDeps) :=
    { hc := fun j => by
        have := (SF_map ch resetDeps (fun f => ⟨rfl, rfl, rfl, rfl⟩)).2 j
        rw [this.2.2.1]
      a := fun k e p he _ => by
        by_cases hj : k < ch.length
        · have : Chain.get (ch.map resetDeps) k = resetDeps (ch.get k) := by
            simp [Chain.get, List.getD, List.getElem?_map, List.getElem?_eq_getElem hj]
          rw [this] at he; cases he
        · rw [get_default_of_ge _ k (by simpa using hj)] at he; cases he }
  have d1 := down_foldl_SU (ti := ti) (initPos := initPos) ch.length 0 (ch.map resetDeps, ([] : IMap)) d0 (fun e he => by cases he)
  rw [← List.range_eq_range'] at d1
  have p := up_foldl_usesIn ti ch.length (List.range ch.length).reverse
    (((List.range ch.length).foldl (downStep ti initPos) (ch.map resetDeps, ([] : IMap))).1, ([] : IMap))
  intro k e q he hq
  have hpd : _ = _ := p k
  simp only [] at hpd
  rw [hpd] at he
  have ⟨h1, x, hx, hxt⟩ := d1.a k e q he hq
  refine ⟨h1, x, ?_, hxt⟩
  rw [(hsf.2 q).2.2.1]
  exact hx

end Nject
