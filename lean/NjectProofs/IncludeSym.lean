import NjectProofs.IncludeFix
/-
  `providesReturns` (include.go:347-456, `requireParameters` / `provideParameters`) records every
  dependency in both directions: whenever provider `j`'s validity check reads the include flag of
  provider `p` (`p ∈ watch j`), `j` is in `p`'s `usedBy` list -- so that `j` is re-checked when `p`
  drops out.  This is the hypothesis `Sym` of the fixpoint theorem; here it is proved for every
  chain, every matching table and every type universe.
-/
namespace Nject

/-- `Sym` up to the debts `D`: pairs (j, p) whose back edge has not been written yet -/
def SymD (ch : Chain) (D : Nat → Nat → Prop) : Prop :=
  ∀ j p, p ∈ (ch.get j).watch → j ∈ (ch.get p).usedBy ∨ D j p

theorem SymD_of_Sym {ch : Chain} (h : Sym ch) : SymD ch (fun _ _ => False) := fun j p hp => Or.inl (h j p hp)
theorem Sym_of_SymD {ch : Chain} (h : SymD ch (fun _ _ => False)) : Sym ch :=
  fun j p hp => (h j p hp).elim id False.elim

theorem SymD_pay {ch : Chain} {D D' : Nat → Nat → Prop} (h : SymD ch D)
    (hp : ∀ j p, D j p → j ∈ (ch.get p).usedBy ∨ D' j p) : SymD ch D' :=
  fun j p hw => (h j p hw).elim Or.inl (hp j p)

theorem get_upd (ch : Chain) (k j : Nat) (g : IP → IP) :
    (ch.upd k g).get j = if j = k ∧ k < ch.length then g (ch.get k) else ch.get j := by
  by_cases hk : k < ch.length
  · by_cases hj : j = k
    · subst hj; simp [hk, get_upd_same ch j g hk]
    · simp [hj, get_upd_other ch k j g (Ne.symm hj)]
  · simp [hk, get_upd_oob ch k g hk]

/-- one update: the watch list of `k` may gain the members `NW`, its `usedBy` list only grows -/
theorem SymD_upd {ch : Chain} {D : Nat → Nat → Prop} (h : SymD ch D) (k : Nat) (g : IP → IP) (NW : Nat → Prop)
    (hw : ∀ x, x ∈ (g (ch.get k)).watch → x ∈ (ch.get k).watch ∨ NW x)
    (hu : ∀ x, x ∈ (ch.get k).usedBy → x ∈ (g (ch.get k)).usedBy) :
    SymD (ch.upd k g) (fun j p => D j p ∨ (j = k ∧ NW p)) := by
  intro j p hp
  have hmono : ∀ q x, x ∈ (ch.get q).usedBy → x ∈ ((ch.upd k g).get q).usedBy := by
    intro q x hx
    rw [get_upd]
    split
    · rename_i hc; rw [hc.1] at hx; exact hu x hx
    · exact hx
  rw [get_upd] at hp
  split at hp
  · rename_i hc
    rcases hw p hp with hold | hnew
    · rcases h k p hold with hin | hd
      · left; rw [hc.1]; exact hmono p k hin
      · right; left; rw [hc.1]; exact hd
    · right; right; exact ⟨hc.1, hnew⟩
  · rcases h j p hp with hin | hd
    · exact Or.inl (hmono p j hin)
    · exact Or.inr (Or.inl hd)

/-- an update that adds nothing to the watch list and removes nothing from `usedBy` -/
theorem Sym_upd_harmless {ch : Chain} (h : Sym ch) (k : Nat) (g : IP → IP)
    (hw : ∀ x, x ∈ (g (ch.get k)).watch → x ∈ (ch.get k).watch)
    (hu : ∀ x, x ∈ (ch.get k).usedBy → x ∈ (g (ch.get k)).usedBy) : Sym (ch.upd k g) := by
  have := SymD_upd (SymD_of_Sym h) k g (fun _ => False) (fun x hx => Or.inl (hw x hx)) hu
  exact Sym_of_SymD (SymD_pay this (fun j p hd => by rcases hd with hd | ⟨_, hd⟩ <;> exact hd.elim))

/-! ### membership in `appendAt` -/

theorem mem_appendAt_flat {m : List (Ty × List Nat)} {k : Ty} {v x : Nat}
    (h : x ∈ (appendAt m k v).flatMap (·.2)) : x ∈ m.flatMap (·.2) ∨ x = v := by
  unfold appendAt at h
  split at h
  · obtain ⟨e, he, hx⟩ := List.mem_flatMap.mp h
    obtain ⟨e0, he0, rfl⟩ := List.mem_map.mp he
    by_cases hk : e0.1 == k
    · simp only [hk, if_true] at hx
      rcases List.mem_append.mp hx with hx | hx
      · exact Or.inl (List.mem_flatMap.mpr ⟨e0, he0, hx⟩)
      · simp at hx; exact Or.inr hx
    · simp only [hk] at hx
      exact Or.inl (List.mem_flatMap.mpr ⟨e0, he0, hx⟩)
  · rw [List.flatMap_append] at h
    rcases List.mem_append.mp h with h | h
    · exact Or.inl h
    · simp at h; exact Or.inr h

theorem mem_watch {f : IP} {x : Nat} : x ∈ f.watch ↔
    (x ∈ (f.usesIn ++ f.usesRecv ++ f.usesByp).flatMap (·.2)) ∨ (f.mcOut = true ∧ x ∈ f.usedByOut.flatMap (·.2)) ∨
    (f.mcRet = true ∧ x ∈ f.usedByRet.flatMap (·.2)) := by
  unfold IP.watch
  simp only [List.mem_append]
  constructor
  · rintro ((h | h) | h)
    · exact Or.inl h
    · right; left
      cases hm : f.mcOut with
      | false => simp [hm] at h
      | true => simp only [hm, if_true] at h; exact ⟨rfl, h⟩
    · right; right
      cases hm : f.mcRet with
      | false => simp [hm] at h
      | true => simp only [hm, if_true] at h; exact ⟨rfl, h⟩
  · rintro (h | ⟨hm, h⟩ | ⟨hm, h⟩)
    · exact Or.inl (Or.inl h)
    · exact Or.inl (Or.inr (by simp only [hm, if_true]; exact h))
    · exact Or.inr (by simp only [hm, if_true]; exact h)

theorem mem_uses_flat {a b c : List (Ty × List Nat)} {x : Nat} :
    x ∈ (a ++ b ++ c).flatMap (·.2) ↔ x ∈ a.flatMap (·.2) ∨ x ∈ b.flatMap (·.2) ∨ x ∈ c.flatMap (·.2) := by
  simp only [List.flatMap_append, List.mem_append, or_assoc]

/-! ### one dependency: the three updates of the inner loop of `requireParameters` -/

/-- the inner step for dependency `d` of provider `i` (the body of `deps.foldl`) -/
def depStep (param : Param) (i : Nat) (t : Ty) (ch : Chain) (d : Nat) : Chain :=
  let isDown := param != .recv
  let ch := ch.upd i fun f => match param with
    | .inp => { f with usesIn := appendAt f.usesIn t d, uses := f.uses ++ [d] }
    | .recv => { f with usesRecv := appendAt f.usesRecv t d, uses := f.uses ++ [d] }
    | .byp => { f with usesByp := appendAt f.usesByp t d, uses := f.uses ++ [d] }
  let ch := ch.upd d fun g =>
    if isDown then { g with usedBy := g.usedBy ++ [i], usedByOut := appendAt g.usedByOut t i }
    else { g with usedBy := g.usedBy ++ [i], usedByRet := appendAt g.usedByRet t i }
  let dmc := if isDown then (ch.get d).mcOut else (ch.get d).mcRet
  if dmc then ch.upd i fun f => { f with usedBy := f.usedBy ++ [d] } else ch

theorem depStep_length (param : Param) (i : Nat) (t : Ty) (ch : Chain) (d : Nat) : (depStep param i t ch d).length = ch.length := by
  unfold depStep
  simp only []
  repeat' split
  all_goals simp only [upd_length]

theorem depStep_sym {param : Param} {i d : Nat} {t : Ty} {ch : Chain} (h : Sym ch) (hi : i < ch.length) (hd : d < ch.length) :
    Sym (depStep param i t ch d) := by
  unfold depStep
  simp only []
  -- U1: i's watch list may gain d
  let g1 : IP → IP := fun f => match param with
    | .inp => { f with usesIn := appendAt f.usesIn t d, uses := f.uses ++ [d] }
    | .recv => { f with usesRecv := appendAt f.usesRecv t d, uses := f.uses ++ [d] }
    | .byp => { f with usesByp := appendAt f.usesByp t d, uses := f.uses ++ [d] }
  have s1 := SymD_upd (SymD_of_Sym h) i g1 (fun x => x = d)
    (by
      intro x hx
      rw [mem_watch] at hx ⊢
      cases param with
      | inp =>
        rcases hx with hx | hx | hx
        · rw [mem_uses_flat] at hx
          rcases hx with hx | hx | hx
          · rcases mem_appendAt_flat hx with hx | hx
            · exact Or.inl (Or.inl (mem_uses_flat.mpr (Or.inl hx)))
            · exact Or.inr hx
          · exact Or.inl (Or.inl (mem_uses_flat.mpr (Or.inr (Or.inl hx))))
          · exact Or.inl (Or.inl (mem_uses_flat.mpr (Or.inr (Or.inr hx))))
        · exact Or.inl (Or.inr (Or.inl hx))
        · exact Or.inl (Or.inr (Or.inr hx))
      | recv =>
        rcases hx with hx | hx | hx
        · rw [mem_uses_flat] at hx
          rcases hx with hx | hx | hx
          · exact Or.inl (Or.inl (mem_uses_flat.mpr (Or.inl hx)))
          · rcases mem_appendAt_flat hx with hx | hx
            · exact Or.inl (Or.inl (mem_uses_flat.mpr (Or.inr (Or.inl hx))))
            · exact Or.inr hx
          · exact Or.inl (Or.inl (mem_uses_flat.mpr (Or.inr (Or.inr hx))))
        · exact Or.inl (Or.inr (Or.inl hx))
        · exact Or.inl (Or.inr (Or.inr hx))
      | byp =>
        rcases hx with hx | hx | hx
        · rw [mem_uses_flat] at hx
          rcases hx with hx | hx | hx
          · exact Or.inl (Or.inl (mem_uses_flat.mpr (Or.inl hx)))
          · exact Or.inl (Or.inl (mem_uses_flat.mpr (Or.inr (Or.inl hx))))
          · rcases mem_appendAt_flat hx with hx | hx
            · exact Or.inl (Or.inl (mem_uses_flat.mpr (Or.inr (Or.inr hx))))
            · exact Or.inr hx
        · exact Or.inl (Or.inr (Or.inl hx))
        · exact Or.inl (Or.inr (Or.inr hx)))
    (by intro x hx; cases param <;> exact hx)
  -- U2: d's usedBy gains i (pays the debt); d's watch may gain i when the flow must be consumed
  let ch1 := ch.upd i g1
  have hd1 : d < ch1.length := by simp [ch1, upd_length]; exact hd
  let isDown := param != .recv
  let g2 : IP → IP := fun g =>
    if isDown then { g with usedBy := g.usedBy ++ [i], usedByOut := appendAt g.usedByOut t i }
    else { g with usedBy := g.usedBy ++ [i], usedByRet := appendAt g.usedByRet t i }
  let mcd : Bool := if isDown then (ch1.get d).mcOut else (ch1.get d).mcRet
  have s2 := SymD_upd s1 d g2 (fun x => mcd = true ∧ x = i)
    (by
      intro x hx
      rw [mem_watch] at hx ⊢
      show _ ∨ (mcd = true ∧ x = i)
      cases hdn : isDown with
      | true =>
        simp only [g2, hdn, if_true] at hx
        rcases hx with hx | ⟨hm, hx⟩ | hx
        · exact Or.inl (Or.inl hx)
        · rcases mem_appendAt_flat hx with hx | hx
          · exact Or.inl (Or.inr (Or.inl ⟨hm, hx⟩))
          · exact Or.inr ⟨by simp only [mcd, hdn, if_true]; exact hm, hx⟩
        · exact Or.inl (Or.inr (Or.inr hx))
      | false =>
        simp only [g2, hdn, Bool.false_eq_true, if_false] at hx
        rcases hx with hx | hx | ⟨hm, hx⟩
        · exact Or.inl (Or.inl hx)
        · exact Or.inl (Or.inr (Or.inl hx))
        · rcases mem_appendAt_flat hx with hx | hx
          · exact Or.inl (Or.inr (Or.inr ⟨hm, hx⟩))
          · exact Or.inr ⟨by simp only [mcd, hdn, Bool.false_eq_true, if_false]; exact hm, hx⟩)
    (by
      intro x hx
      show x ∈ (g2 (ch1.get d)).usedBy
      have : (g2 (ch1.get d)).usedBy = (ch1.get d).usedBy ++ [i] := by cases hdn : isDown <;> simp [g2, hdn]
      rw [this]; exact List.mem_append_left _ hx)
  let ch2 := ch1.upd d g2
  -- the debt (i, d) is paid: i is in d's usedBy now
  have hpaid : i ∈ (ch2.get d).usedBy := by
    show i ∈ ((ch1.upd d g2).get d).usedBy
    rw [get_upd_same ch1 d g2 hd1]
    cases hdn : isDown <;> simp [g2, hdn]
  have hmcd : (if isDown then (ch2.get d).mcOut else (ch2.get d).mcRet) = mcd := by
    show (if isDown then ((ch1.upd d g2).get d).mcOut else ((ch1.upd d g2).get d).mcRet) = mcd
    rw [get_upd_same ch1 d g2 hd1]
    cases hdn : isDown <;> simp [g2, mcd, hdn]
  have s2' : SymD ch2 (fun j p => j = d ∧ mcd = true ∧ p = i) := by
    apply SymD_pay s2
    intro j p hdebt
    rcases hdebt with (hf | ⟨hj, hp⟩) | ⟨hj, hm, hp⟩
    · exact hf.elim
    · left; rw [hj, hp]; exact hpaid
    · exact Or.inr ⟨hj, hm, hp⟩
  show Sym (if (if isDown then (ch2.get d).mcOut else (ch2.get d).mcRet) then ch2.upd i (fun f => { f with usedBy := f.usedBy ++ [d] }) else ch2)
  rw [hmcd]
  cases hm : mcd with
  | false =>
    simp only [Bool.false_eq_true, if_false]
    apply Sym_of_SymD
    apply SymD_pay s2'
    intro j p hdebt
    rw [hm] at hdebt
    exact absurd hdebt.2.1 (by simp)
  | true =>
    simp only [if_true]
    have hi2 : i < ch2.length := by simp [ch2, ch1, upd_length]; exact hi
    have s3 := SymD_upd s2' i (fun f => { f with usedBy := f.usedBy ++ [d] }) (fun _ => False)
      (fun x hx => Or.inl hx) (fun x hx => by simp [hx])
    apply Sym_of_SymD
    apply SymD_pay s3
    intro j p hdebt
    rcases hdebt with ⟨hj, _, hp⟩ | ⟨_, hf⟩
    · left
      rw [hj, hp, get_upd_same ch2 i _ hi2]
      simp
    · exact hf.elim

end Nject

namespace Nject

/-! ### lifting through the loops of `requireParameters` / `provideParameters` / `providesReturns` -/

theorem deps_foldl_sym (param : Param) (i : Nat) (t : Ty) : ∀ (deps : List Nat) (ch : Chain),
    Sym ch → i < ch.length → (∀ d ∈ deps, d < ch.length) →
      Sym (deps.foldl (depStep param i t) ch) ∧ (deps.foldl (depStep param i t) ch).length = ch.length
  | [], ch, h, _, _ => ⟨h, rfl⟩
  | d :: deps, ch, h, hi, hd => by
    simp only [List.foldl_cons]
    have hl := depStep_length param i t ch d
    have ⟨h2, l2⟩ := deps_foldl_sym param i t deps (depStep param i t ch d)
      (depStep_sym h hi (hd d (by simp))) (by rw [hl]; exact hi) (fun x hx => by rw [hl]; exact hd x (by simp [hx]))
    exact ⟨h2, l2.trans hl⟩

/-- every provider listed in the matching table is a position of the chain -/
def AvailOK (m : IMap) (n : Nat) : Prop := ∀ e ∈ m, ∀ p ∈ e.2.2, p < n

theorem IMap.add_ok {m : IMap} {n : Nat} (h : AvailOK m n) (t : Ty) (layer p : Nat) (hp : p < n) : AvailOK (m.add t layer p) n := by
  unfold IMap.add
  split
  · intro e he q hq
    obtain ⟨e0, he0, rfl⟩ := List.mem_map.mp he
    by_cases hk : e0.1 == t
    · simp only [hk, if_true] at hq
      rcases List.mem_append.mp hq with hq | hq
      · exact h e0 he0 q hq
      · simp at hq; subst hq; exact hp
    · simp only [hk] at hq
      exact h e0 he0 q hq
  · intro e he q hq
    rcases List.mem_append.mp he with he | he
    · exact h e he q hq
    · simp at he; subst he; simp at hq; subst hq; exact hp

theorem foldl_best_mem {α} (f : Option α → α → Option α) (hf : ∀ b e r, f b e = some r → r = e ∨ b = some r) :
    ∀ (l : List α) (b : Option α) (r : α), l.foldl f b = some r → r ∈ l ∨ b = some r
  | [], b, r, h => Or.inr h
  | e :: l, b, r, h => by
    simp only [List.foldl_cons] at h
    rcases foldl_best_mem f hf l (f b e) r h with hm | hb
    · exact Or.inl (List.mem_cons_of_mem _ hm)
    · rcases hf b e r hb with he | hb'
      · exact Or.inl (by rw [he]; simp)
      · exact Or.inr hb'

theorem bestMatch_deps {ti : TyInfo} {loose : Nat → List Ty} {m : IMap} {n : Nat} (h : AvailOK m n) {want found : Ty} {deps : List Nat}
    (hb : bestMatch ti loose m want = some (found, deps)) : ∀ d ∈ deps, d < n := by
  unfold bestMatch at hb
  split at hb
  · rename_i e he
    simp only [Option.some.injEq, Prod.mk.injEq] at hb
    intro d hd
    rw [← hb.2] at hd
    exact h e (List.mem_of_find?_eq_some he) d hd
  · split at hb
    · cases hb
    · simp only [] at hb
      split at hb
      · cases hb
      · rename_i be hbe
        split at hb
        · cases hb
        · simp only [Option.some.injEq, Prod.mk.injEq] at hb
          intro d hd
          rw [← hb.2] at hd
          have hd' := (List.mem_filter.mp hd).1
          have hmem := foldl_best_mem _ (by
            intro b e r hr
            cases b with
            | none => simp at hr; exact Or.inl hr.symm
            | some be' =>
              simp only [] at hr
              split at hr
              · simp at hr; exact Or.inl hr.symm
              · exact Or.inr hr) _ _ _ hbe
          rcases hmem with hmem | hmem
          · exact h be (List.mem_filter.mp hmem).1 d hd'
          · cases hmem

def resetStep (param : Param) : IP → IP := fun f => match param with
  | .inp => { f with usesIn := [], errIn := [] }
  | .recv => { f with usesRecv := [], errRecv := [] }
  | .byp => { f with usesByp := [], errByp := [] }

def errStep (param : Param) (t : Ty) : IP → IP := fun f => match param with
  | .inp => { f with errIn := f.errIn ++ [t] }
  | .recv => { f with errRecv := f.errRecv ++ [t] }
  | .byp => { f with errByp := f.errByp ++ [t] }

def rmapStep (param : Param) (t found : Ty) : IP → IP := fun f => match param with
  | .inp => { f with downRmap := setKey f.downRmap t found }
  | .recv => { f with upRmap := setKey f.upRmap t found }
  | .byp => { f with bypassRmap := setKey f.bypassRmap t found }

/-- the body of the loop over the requested types -/
def typeStep (ti : TyInfo) (avail : IMap) (param : Param) (i : Nat) (ch : Chain) (t : Ty) : Chain :=
  match bestMatch ti (fun p => (ch.get p).c.loose) avail t with
  | none => ch.upd i (errStep param t)
  | some (found, deps) => deps.foldl (depStep param i t) (ch.upd i (rmapStep param t found))

def flowOfParam (f : IP) : Param → List Ty
  | .inp => f.c.inp
  | .recv => f.c.recv
  | .byp => f.c.byp

/-- `requireParameters` with its loops named -/
theorem requireParams_eq (ti : TyInfo) (ch : Chain) (i : Nat) (avail : IMap) (param : Param) :
    requireParams ti ch i avail param =
      ((flowOfParam (ch.get i) param).filter (· != tNoType)).foldl (typeStep ti avail param i) (ch.upd i (resetStep param)) := by
  unfold requireParams
  cases param <;> rfl

theorem watch_sub_of_fields {f g : IP}
    (h1 : ∀ x, x ∈ g.usesIn.flatMap (·.2) → x ∈ f.usesIn.flatMap (·.2))
    (h2 : ∀ x, x ∈ g.usesRecv.flatMap (·.2) → x ∈ f.usesRecv.flatMap (·.2))
    (h3 : ∀ x, x ∈ g.usesByp.flatMap (·.2) → x ∈ f.usesByp.flatMap (·.2))
    (h4 : g.mcOut = f.mcOut) (h5 : ∀ x, x ∈ g.usedByOut.flatMap (·.2) → x ∈ f.usedByOut.flatMap (·.2))
    (h6 : g.mcRet = f.mcRet) (h7 : ∀ x, x ∈ g.usedByRet.flatMap (·.2) → x ∈ f.usedByRet.flatMap (·.2)) :
    ∀ x, x ∈ g.watch → x ∈ f.watch := by
  intro x hx
  rw [mem_watch] at hx ⊢
  rcases hx with hx | ⟨hm, hx⟩ | ⟨hm, hx⟩
  · left
    rw [mem_uses_flat] at hx ⊢
    rcases hx with hx | hx | hx
    · exact Or.inl (h1 x hx)
    · exact Or.inr (Or.inl (h2 x hx))
    · exact Or.inr (Or.inr (h3 x hx))
  · exact Or.inr (Or.inl ⟨h4 ▸ hm, h5 x hx⟩)
  · exact Or.inr (Or.inr ⟨h6 ▸ hm, h7 x hx⟩)

theorem typeStep_sym {ti : TyInfo} {avail : IMap} {param : Param} {i : Nat} {c : Chain} {t : Ty}
    (hc : Sym c) (hi : i < c.length) (ha : AvailOK avail c.length) :
    Sym (typeStep ti avail param i c t) ∧ (typeStep ti avail param i c t).length = c.length := by
  unfold typeStep
  cases hb : bestMatch ti (fun p => (c.get p).c.loose) avail t with
  | none =>
    simp only []
    refine ⟨?_, upd_length _ _ _⟩
    apply Sym_upd_harmless hc
    · intro x hx; unfold errStep at hx; cases param <;> exact hx
    · intro x hx; unfold errStep; cases param <;> exact hx
  | some r =>
    obtain ⟨found, deps⟩ := r
    simp only []
    have hs1 : Sym (c.upd i (rmapStep param t found)) := by
      apply Sym_upd_harmless hc
      · intro x hx; unfold rmapStep at hx; cases param <;> exact hx
      · intro x hx; unfold rmapStep; cases param <;> exact hx
    have hdeps := bestMatch_deps ha hb
    have ⟨hs2, hl2⟩ := deps_foldl_sym param i t deps _ hs1 (by rw [upd_length]; exact hi)
      (fun d hd => by rw [upd_length]; exact hdeps d hd)
    exact ⟨hs2, by rw [hl2, upd_length]⟩

theorem types_foldl_sym {ti : TyInfo} {avail : IMap} {param : Param} {i n : Nat} (ha : AvailOK avail n) (hi : i < n) :
    ∀ (l : List Ty) (c : Chain), Sym c → c.length = n →
      Sym (l.foldl (typeStep ti avail param i) c) ∧ (l.foldl (typeStep ti avail param i) c).length = n
  | [], c, hc, hl => ⟨hc, hl⟩
  | t :: l, c, hc, hl => by
    simp only [List.foldl_cons]
    have ⟨h1, l1⟩ := typeStep_sym (ti := ti) (avail := avail) (param := param) (i := i) (t := t) hc (by rw [hl]; exact hi) (by rw [hl]; exact ha)
    exact types_foldl_sym ha hi l _ h1 (l1.trans hl)

theorem requireParams_sym {ti : TyInfo} {ch : Chain} {i : Nat} {avail : IMap} {param : Param}
    (h : Sym ch) (hi : i < ch.length) (ha : AvailOK avail ch.length) :
    Sym (requireParams ti ch i avail param) ∧ (requireParams ti ch i avail param).length = ch.length := by
  rw [requireParams_eq]
  have h0 : Sym (ch.upd i (resetStep param)) := by
    apply Sym_upd_harmless h
    · unfold resetStep
      cases param
      · exact watch_sub_of_fields (fun x hx => by cases hx) (fun _ hx => hx) (fun _ hx => hx) rfl (fun _ hx => hx) rfl (fun _ hx => hx)
      · exact watch_sub_of_fields (fun _ hx => hx) (fun x hx => by cases hx) (fun _ hx => hx) rfl (fun _ hx => hx) rfl (fun _ hx => hx)
      · exact watch_sub_of_fields (fun _ hx => hx) (fun _ hx => hx) (fun x hx => by cases hx) rfl (fun _ hx => hx) rfl (fun _ hx => hx)
    · intro x hx; unfold resetStep; cases param <;> exact hx
  exact types_foldl_sym ha hi _ _ h0 (upd_length _ _ _)

end Nject

namespace Nject

/-! ### `provideParameters` and the two passes of `providesReturns` -/

theorem adds_foldl_ok {n : Nat} (layer p : Nat) (hp : p < n) : ∀ (l : List Ty) (m : IMap), AvailOK m n →
    AvailOK (l.foldl (fun m t => m.add t layer p) m) n
  | [], m, h => h
  | t :: l, m, h => by
    simp only [List.foldl_cons]
    exact adds_foldl_ok layer p hp l _ (IMap.add_ok h t layer p hp)

theorem provideParams_sym {ch : Chain} {i : Nat} {avail : IMap} {down : Bool} {layer : Nat}
    (h : Sym ch) (hi : i < ch.length) (ha : AvailOK avail ch.length) :
    Sym (provideParams ch i avail down layer).1 ∧ (provideParams ch i avail down layer).1.length = ch.length ∧
    AvailOK (provideParams ch i avail down layer).2 ch.length := by
  unfold provideParams
  simp only []
  refine ⟨?_, upd_length _ _ _, adds_foldl_ok layer i hi _ _ ha⟩
  apply Sym_upd_harmless h
  · cases down
    · exact watch_sub_of_fields (fun _ hx => hx) (fun _ hx => hx) (fun _ hx => hx) rfl (fun _ hx => hx) rfl (fun x hx => by cases hx)
    · exact watch_sub_of_fields (fun _ hx => hx) (fun _ hx => hx) (fun _ hx => hx) rfl (fun x hx => by cases hx) rfl (fun _ hx => hx)
  · intro x hx; cases down <;> exact hx

/-- the body of the downward pass -/
def downStep (ti : TyInfo) (initPos : Option Nat) (acc : Chain × IMap) (i : Nat) : Chain × IMap :=
  let (ch, avail) := acc
  if (ch.get i).cannot then acc else
  let ch :=
    match initPos with
    | some ip =>
      if (ch.get i).c.cls == .invokeFunc then
        requireParams ti (ch.upd ip fun f => { f with bypassRmap := [] }) ip avail .byp
      else ch
    | none => ch
  let ch := requireParams ti ch i avail .inp
  provideParams ch i avail true (i + 2)

/-- the body of the upward pass -/
def upStep (ti : TyInfo) (n : Nat) (acc : Chain × IMap) (i : Nat) : Chain × IMap :=
  let (ch, avail) := acc
  if (ch.get i).cannot then acc else
  let ch := requireParams ti ch i avail .recv
  provideParams ch i avail false (n - i + 2)

def resetDeps (f : IP) : IP :=
  { f with usedByOut := [], usedByRet := [], usesIn := [], usesRecv := [], usesByp := [],
           uses := [], errIn := [], errRecv := [], errByp := [], usedBy := [] }

theorem providesReturns_eq (ti : TyInfo) (ch : Chain) (initPos : Option Nat) :
    providesReturns ti ch initPos =
      ((List.range ch.length).reverse.foldl (upStep ti ch.length)
        (((List.range ch.length).foldl (downStep ti initPos) (ch.map resetDeps, ([] : IMap))).1, ([] : IMap))).1 := by
  rfl

/-- the invariant of both passes -/
def PInv (n : Nat) (acc : Chain × IMap) : Prop := Sym acc.1 ∧ acc.1.length = n ∧ AvailOK acc.2 n

theorem downTail_inv {ti : TyInfo} {n : Nat} {c1 : Chain} {avail : IMap} {i : Nat} (hs1 : Sym c1) (hl1 : c1.length = n)
    (ha : AvailOK avail n) (hi : i < n) :
    PInv n (provideParams (requireParams ti c1 i avail .inp) i avail true (i + 2)) := by
  have ⟨hs2, hl2⟩ := requireParams_sym (ti := ti) (i := i) (avail := avail) (param := .inp) hs1 (by rw [hl1]; exact hi) (by rw [hl1]; exact ha)
  have ⟨hs3, hl3, ha3⟩ := provideParams_sym (ch := requireParams ti c1 i avail .inp) (i := i) (avail := avail) (down := true) (layer := i + 2)
    hs2 (by rw [hl2, hl1]; exact hi) (by rw [hl2, hl1]; exact ha)
  exact ⟨hs3, by rw [hl3, hl2, hl1], by rw [hl2, hl1] at ha3; exact ha3⟩

theorem downStep_inv {ti : TyInfo} {initPos : Option Nat} {n : Nat} (hip : ∀ ip, initPos = some ip → ip < n)
    {acc : Chain × IMap} (h : PInv n acc) {i : Nat} (hi : i < n) : PInv n (downStep ti initPos acc i) := by
  obtain ⟨ch, avail⟩ := acc
  obtain ⟨hs, hl, ha⟩ := h
  simp only at hs hl ha
  cases initPos with
  | none =>
    unfold downStep
    simp only []
    split
    · exact ⟨hs, hl, ha⟩
    · exact downTail_inv hs hl ha hi
  | some ip =>
    have hipn := hip ip rfl
    unfold downStep
    simp only []
    split
    · exact ⟨hs, hl, ha⟩
    · split
      · have hs0 : Sym (ch.upd ip fun f => { f with bypassRmap := [] }) :=
          Sym_upd_harmless hs ip _ (fun _ hx => hx) (fun _ hx => hx)
        have ⟨a, b⟩ := requireParams_sym (ti := ti) (i := ip) (avail := avail) (param := .byp) hs0
          (by rw [upd_length, hl]; exact hipn) (by rw [upd_length, hl]; exact ha)
        exact downTail_inv a (by rw [b, upd_length, hl]) ha hi
      · exact downTail_inv hs hl ha hi

theorem upStep_inv {ti : TyInfo} {n m : Nat} {acc : Chain × IMap} (h : PInv n acc) {i : Nat} (hi : i < n) :
    PInv n (upStep ti m acc i) := by
  obtain ⟨ch, avail⟩ := acc
  obtain ⟨hs, hl, ha⟩ := h
  simp only at hs hl ha
  unfold upStep
  simp only []
  split
  · exact ⟨hs, hl, ha⟩
  · have ⟨hs2, hl2⟩ := requireParams_sym (ti := ti) (i := i) (avail := avail) (param := .recv) hs (by rw [hl]; exact hi) (by rw [hl]; exact ha)
    have ⟨hs3, hl3, ha3⟩ := provideParams_sym (ch := requireParams ti ch i avail .recv) (i := i) (avail := avail) (down := false) (layer := m - i + 2)
      hs2 (by rw [hl2, hl]; exact hi) (by rw [hl2, hl]; exact ha)
    exact ⟨hs3, by rw [hl3, hl2, hl], by rw [hl2, hl] at ha3; exact ha3⟩

theorem foldl_inv {n : Nat} (f : Chain × IMap → Nat → Chain × IMap) (hf : ∀ acc i, PInv n acc → i < n → PInv n (f acc i)) :
    ∀ (l : List Nat) (acc : Chain × IMap), (∀ i ∈ l, i < n) → PInv n acc → PInv n (l.foldl f acc)
  | [], acc, _, h => h
  | i :: l, acc, hl, h => by
    simp only [List.foldl_cons]
    exact foldl_inv f hf l _ (fun j hj => hl j (by simp [hj])) (hf acc i h (hl i (by simp)))

theorem resetDeps_watch (f : IP) : (resetDeps f).watch = [] := by
  unfold resetDeps IP.watch
  simp

/-- **dependencies are recorded in both directions**, for every chain, matching table and type universe -/
theorem providesReturns_sym (ti : TyInfo) (ch : Chain) (initPos : Option Nat) (hip : ∀ ip, initPos = some ip → ip < ch.length) :
    Sym (providesReturns ti ch initPos) := by
  rw [providesReturns_eq]
  have h0 : PInv ch.length (ch.map resetDeps, ([] : IMap)) := by
    refine ⟨?_, by simp, fun e he => by cases he⟩
    intro j p hp
    exfalso
    have : (Chain.get (ch.map resetDeps) j).watch = [] := by
      by_cases hj : j < ch.length
      · have : Chain.get (ch.map resetDeps) j = resetDeps (ch.get j) := by
          simp [Chain.get, List.getD, List.getElem?_map, List.getElem?_eq_getElem hj]
        rw [this]; exact resetDeps_watch _
      · have : Chain.get (ch.map resetDeps) j = default := get_default_of_ge _ j (by simpa using hj)
        rw [this]; rfl
    rw [this] at hp; cases hp
  have h1 := foldl_inv (n := ch.length) (downStep ti initPos) (fun acc i h hi => downStep_inv hip h hi) (List.range ch.length) _
    (fun i hi => by simpa using hi) h0
  have h1' : PInv ch.length (((List.range ch.length).foldl (downStep ti initPos) (ch.map resetDeps, ([] : IMap))).1, ([] : IMap)) :=
    ⟨h1.1, h1.2.1, fun e he => by cases he⟩
  have h2 := foldl_inv (n := ch.length) (upStep ti ch.length) (fun acc i h hi => upStep_inv h hi) (List.range ch.length).reverse _
    (fun i hi => by simpa using hi) h1'
  exact h2.1

end Nject

namespace Nject

/-! ### the length of the chain never changes -/

theorem providesReturns_length (ti : TyInfo) (ch : Chain) (initPos : Option Nat) (hip : ∀ ip, initPos = some ip → ip < ch.length) :
    (providesReturns ti ch initPos).length = ch.length := by
  rw [providesReturns_eq]
  have h0 : PInv ch.length (ch.map resetDeps, ([] : IMap)) := by
    refine ⟨?_, by simp, fun e he => by cases he⟩
    intro j p hp
    exfalso
    have : (Chain.get (ch.map resetDeps) j).watch = [] := by
      by_cases hj : j < ch.length
      · have : Chain.get (ch.map resetDeps) j = resetDeps (ch.get j) := by
          simp [Chain.get, List.getD, List.getElem?_map, List.getElem?_eq_getElem hj]
        rw [this]; exact resetDeps_watch _
      · have : Chain.get (ch.map resetDeps) j = default := get_default_of_ge _ j (by simpa using hj)
        rw [this]; rfl
    rw [this] at hp; cases hp
  have h1 := foldl_inv (n := ch.length) (downStep ti initPos) (fun acc i h hi => downStep_inv hip h hi) (List.range ch.length) _
    (fun i hi => by simpa using hi) h0
  have h1' : PInv ch.length (((List.range ch.length).foldl (downStep ti initPos) (ch.map resetDeps, ([] : IMap))).1, ([] : IMap)) :=
    ⟨h1.1, h1.2.1, fun e he => by cases he⟩
  have h2 := foldl_inv (n := ch.length) (upStep ti ch.length) (fun acc i h hi => upStep_inv h hi) (List.range ch.length).reverse _
    (fun i hi => by simpa using hi) h1'
  exact h2.2.1

theorem validate_length (b : Bool) (ch ch' : Chain) (h : validate b ch = .ok ch') : ch'.length = ch.length :=
  (validate_FR b ch ch' h).1

theorem clusters_length (ch : Chain) : (clusters ch).length = ch.length := by
  unfold clusters
  have key : ∀ (l : List Nat) (acc : Chain × List (Nat × Nat)), acc.1.length = ch.length →
      (l.foldl (fun (acc : Chain × List (Nat × Nat)) i =>
        let (ch, leaders) := acc
        let fm := ch.get i
        if fm.c.cluster == 0 || fm.excluded then acc else
        let (ch, leaders) :=
          match leaders.lookup fm.c.cluster with
          | some l => ((ch.upd l fun f => { f with clusterMembers := some ((f.clusterMembers.getD []) ++ [i]) }).upd i
                        (fun f => { f with clusterMembers := none }), leaders)
          | none => (ch.upd i fun f => { f with clusterMembers := some [i] }, leaders ++ [(fm.c.cluster, i)])
        let ch := if !fm.c.required && !fm.c.desired && fm.wanted then ch.upd i fun f => { f with wantedInCluster := true } else ch
        (ch, leaders)) acc).1.length = ch.length := by
    intro l
    induction l with
    | nil => intro acc h; exact h
    | cons i l ih =>
      intro acc h
      simp only [List.foldl_cons]
      apply ih
      obtain ⟨c, leaders⟩ := acc
      simp only at h ⊢
      split
      · exact h
      · cases leaders.lookup (c.get i).c.cluster <;> simp only [] <;> split <;> simp [upd_length, h]
  exact key _ _ rfl

theorem eliminateUnused_length : ∀ (fuel : Nat) (check : List Nat) (ch : Chain), (eliminateUnused fuel check ch).length = ch.length
  | 0, _, _ => by simp [eliminateUnused]
  | _ + 1, [], _ => by simp [eliminateUnused]
  | fuel + 1, i :: check, ch => by
    simp only [eliminateUnused]
    split
    · exact eliminateUnused_length fuel check ch
    · split
      · exact eliminateUnused_length fuel check ch
      · rw [eliminateUnused_length fuel _ _, upd_length]

theorem foldl_upd_length {α} (f : Chain → α → Chain) (hf : ∀ c a, (f c a).length = c.length) :
    ∀ (l : List α) (c : Chain), (l.foldl f c).length = c.length
  | [], _ => rfl
  | a :: l, c => by simp only [List.foldl_cons]; rw [foldl_upd_length f hf l, hf]

theorem tryWithout_length (ch : Chain) (without : List Nat) : (tryWithout ch without).length = ch.length := by
  unfold tryWithout
  split
  · split
    · rfl
    · simp only []
      split
      · rename_i ch2 hv
        rw [validate_length false _ ch2 hv, upd_length]
      · rw [upd_length, upd_length]
  · simp only []
    split
    · rename_i ch2 hv
      rw [foldl_upd_length _ (fun c a => upd_length c a _), validate_length false _ ch2 hv,
        foldl_upd_length _ (fun c a => upd_length c a _)]
    · rw [foldl_upd_length _ (fun c a => upd_length c a _), foldl_upd_length _ (fun c a => upd_length c a _)]

theorem proposalRound_length (ch : Chain) : (proposalRound ch).length = ch.length := by
  unfold proposalRound
  apply foldl_upd_length
  intro c i
  simp only []
  split
  · rfl
  · split
    · split
      · exact tryWithout_length c _
      · rfl
    · exact tryWithout_length c _

theorem proposalLoop_length : ∀ (fuel : Nat) (ch : Chain), (proposalLoop fuel ch).length = ch.length
  | 0, _ => rfl
  | fuel + 1, ch => by
    simp only [proposalLoop]
    split
    · exact proposalRound_length ch
    · rw [proposalLoop_length fuel, proposalRound_length]

theorem initState_length (funcs : List CP) (cannot0 : List Nat) : (initState funcs cannot0).length = funcs.length := by
  simp [initState]

theorem initPos_lt (funcs : List CP) (ip : Nat) (h : initPosOf funcs = some ip) : ip < funcs.length := by
  unfold initPosOf at h
  obtain ⟨⟨c, i⟩, hm, hf⟩ := List.exists_of_findSome?_eq_some h
  simp only at hf
  split at hf
  · cases hf
    have := (List.of_mem_zip hm).2
    simpa using this
  · cases hf

theorem pruneStages_length (ch : Chain) : (pruneStages ch).length = ch.length := by
  unfold pruneStages
  simp only [List.length_map]
  rw [proposalLoop_length, eliminateUnused_length, clusters_length]
  simp only [List.length_map]

theorem firstValidation_length (ti : TyInfo) (funcs : List CP) (cannot0 : List Nat) (ch : Chain)
    (h : firstValidation ti funcs cannot0 = .ok ch) : ch.length = funcs.length := by
  unfold firstValidation at h
  rw [validate_length true _ ch h,
    providesReturns_length _ _ _ (fun ip hip => by rw [initState_length]; exact initPos_lt funcs ip hip), initState_length]

/-- the chain handed to the final validation has its dependencies recorded in both directions -/
theorem inclusionBeforeFinal_sym (ti : TyInfo) (funcs : List CP) (cannot0 : List Nat) (pre : Chain)
    (h : inclusionBeforeFinal ti funcs cannot0 = .ok pre) : Sym pre := by
  unfold inclusionBeforeFinal at h
  split at h
  · cases h
  · rename_i ch1 hv
    injection h with h
    subst h
    apply providesReturns_sym
    intro ip hip
    rw [pruneStages_length, firstValidation_length ti funcs cannot0 ch1 hv]
    exact initPos_lt funcs ip hip

end Nject
