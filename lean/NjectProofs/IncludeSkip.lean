import NjectProofs.IncludeProvDown
/-
  What `providesReturns` does with the providers that are already marked "cannot be included" (the ones
  pruning excluded): it skips them in both passes.  So after the flows have been computed
    * such a provider uses nobody and is used by nobody, and
    * it is on nobody's `uses` / `usedBy` list
  (with the one exception the code makes: the init function's bypass parameters are asked for when the invoke
  function is reached, whatever the init function's own mark).  Used for C16 in `NjectProps/C16.lean`.
-/
namespace Nject

/-- `x` may appear in a dependency list: not marked, or the init function -/
def OKp (C : Nat → Bool) (ip : Option Nat) (x : Nat) : Prop := C x = false ∨ ip = some x

/-- the invariant of both passes; `C` is the (static) mark by position -/
structure NC (C : Nat → Bool) (ip : Option Nat) (ch : Chain) : Prop where
  hc : ∀ j, j < ch.length → (ch.get j).cannot = C j
  a : ∀ k, ∀ x ∈ (ch.get k).uses ++ (ch.get k).usedBy, OKp C ip x
  b : ∀ j, ¬ OKp C ip j → (ch.get j).uses = [] ∧ (ch.get j).usedBy = []

/-- an update of an allowed provider whose lists gain allowed members only -/
theorem NC_upd {C ip ch} (h : NC C ip ch) (k : Nat) (g : IP → IP) (hk : OKp C ip k)
    (hg : ∀ f, (g f).cannot = f.cannot ∧ ∀ x ∈ (g f).uses ++ (g f).usedBy, x ∈ f.uses ++ f.usedBy ∨ OKp C ip x) :
    NC C ip (ch.upd k g) := by
  exact
    { hc := fun j hj => by
        rw [upd_length] at hj
        rw [get_upd]; split
        · rename_i hjk; rw [(hg _).1, ← hjk.1]; exact h.hc j hj
        · exact h.hc j hj
      a := fun j x hx => by
        rw [get_upd] at hx; split at hx
        · rcases (hg _).2 x hx with hold | hok
          · exact h.a k x hold
          · exact hok
        · exact h.a j x hx
      b := fun j hj => by
        rw [get_upd]; split
        · rename_i hjk; rw [hjk.1] at hj; exact absurd hk hj
        · exact h.b j hj }

theorem NC_ite {C ip} {x y : Chain} (c : Prop) [Decidable c] (hx : NC C ip x) (hy : NC C ip y) :
    NC C ip (if c then x else y) := by
  split
  · exact hx
  · exact hy

/-- an update of an allowed provider `a` whose lists stay or gain the allowed provider `b` -/
theorem NC_add {C ip} (c : Chain) (a b : Nat) (g : IP → IP) (h : NC C ip c) (ha : OKp C ip a) (hb : OKp C ip b)
    (hg : ∀ f, (g f).cannot = f.cannot ∧ ((g f).uses = f.uses ∨ (g f).uses = f.uses ++ [b]) ∧
      ((g f).usedBy = f.usedBy ∨ (g f).usedBy = f.usedBy ++ [b])) : NC C ip (c.upd a g) := by
  apply NC_upd h a g ha
  intro f
  refine ⟨(hg f).1, fun x hx => ?_⟩
  rcases (hg f).2.1 with h1 | h1 <;> rcases (hg f).2.2 with h2 | h2 <;> rw [h1, h2] at hx <;>
    simp only [List.mem_append, List.mem_singleton] at hx ⊢
  · exact Or.inl hx
  · rcases hx with hx | hx | hx
    · exact Or.inl (Or.inl hx)
    · exact Or.inl (Or.inr hx)
    · rw [hx]; exact Or.inr hb
  · rcases hx with (hx | hx) | hx
    · exact Or.inl (Or.inl hx)
    · rw [hx]; exact Or.inr hb
    · exact Or.inl (Or.inr hx)
  · rcases hx with (hx | hx) | hx | hx
    · exact Or.inl (Or.inl hx)
    · rw [hx]; exact Or.inr hb
    · exact Or.inl (Or.inr hx)
    · rw [hx]; exact Or.inr hb

theorem depStep_NC {C ip ch} {param : Param} {k : Nat} {t : Ty} {d : Nat}
    (h : NC C ip ch) (hk : OKp C ip k) (hd : OKp C ip d) : NC C ip (depStep param k t ch d) := by
  cases param <;>
  · unfold depStep
    simp only []
    apply NC_ite
    · refine NC_add _ k d _ ?_ hk hd ?_
      · refine NC_add _ d k _ ?_ hd hk ?_
        · refine NC_add _ k d _ h hk hd ?_
          intro f; exact ⟨rfl, Or.inr rfl, Or.inl rfl⟩
        · intro f; first | exact ⟨rfl, Or.inl rfl, Or.inr rfl⟩ | (split <;> exact ⟨rfl, Or.inl rfl, Or.inr rfl⟩)
      · intro f; exact ⟨rfl, Or.inl rfl, Or.inr rfl⟩
    · refine NC_add _ d k _ ?_ hd hk ?_
      · refine NC_add _ k d _ h hk hd ?_
        intro f; exact ⟨rfl, Or.inr rfl, Or.inl rfl⟩
      · intro f; first | exact ⟨rfl, Or.inl rfl, Or.inr rfl⟩ | (split <;> exact ⟨rfl, Or.inl rfl, Or.inr rfl⟩)

theorem deps_foldl_NC {C ip} {param : Param} {k : Nat} {t : Ty} (hk : OKp C ip k) :
    ∀ (deps : List Nat) (ch : Chain), NC C ip ch → (∀ d ∈ deps, OKp C ip d) →
      NC C ip (deps.foldl (depStep param k t) ch)
  | [], _, h, _ => h
  | d :: deps, ch, h, hd => by
    simp only [List.foldl_cons]
    exact deps_foldl_NC hk deps _ (depStep_NC h hk (hd d (by simp))) (fun x hx => hd x (by simp [hx]))

/-- the table lists allowed providers only -/
def AvOK (C : Nat → Bool) (ip : Option Nat) (avail : IMap) : Prop := ∀ e ∈ avail, ∀ p ∈ e.2.2, OKp C ip p

/-- an update that leaves the lists and the mark alone -/
theorem NC_frame {C ip ch} (h : NC C ip ch) (k : Nat) (g : IP → IP) (hk : OKp C ip k)
    (hg : ∀ f, (g f).cannot = f.cannot ∧ (g f).uses = f.uses ∧ (g f).usedBy = f.usedBy) : NC C ip (ch.upd k g) :=
  NC_upd h k g hk (fun f => ⟨(hg f).1, fun x hx => by rw [(hg f).2.1, (hg f).2.2] at hx; exact Or.inl hx⟩)

theorem typeStep_NC {ti : TyInfo} {C ip ch avail} {param : Param} {k : Nat} {t : Ty}
    (h : NC C ip ch) (hk : OKp C ip k) (hav : AvOK C ip avail) : NC C ip (typeStep ti avail param k ch t) := by
  unfold typeStep
  cases hb : bestMatch ti (fun p => (ch.get p).c.loose) avail t with
  | none =>
    simp only []
    exact NC_frame h k _ hk (fun f => by unfold errStep; cases param <;> exact ⟨rfl, rfl, rfl⟩)
  | some r =>
    obtain ⟨found, deps⟩ := r
    simp only []
    apply deps_foldl_NC hk deps _ (NC_frame h k _ hk (fun f => by unfold rmapStep; cases param <;> exact ⟨rfl, rfl, rfl⟩))
    intro d hd
    obtain ⟨e, he, hde⟩ := bm_deps_mem hb d hd
    exact hav e he d hde

theorem types_foldl_NC {ti : TyInfo} {C ip avail} {param : Param} {k : Nat} (hk : OKp C ip k) (hav : AvOK C ip avail) :
    ∀ (l : List Ty) (ch : Chain), NC C ip ch → NC C ip (l.foldl (typeStep ti avail param k) ch)
  | [], _, h => h
  | t :: l, ch, h => by
    simp only [List.foldl_cons]
    exact types_foldl_NC hk hav l _ (typeStep_NC h hk hav)

theorem requireParams_NC {ti : TyInfo} {C ip ch avail} {param : Param} {k : Nat}
    (h : NC C ip ch) (hk : OKp C ip k) (hav : AvOK C ip avail) : NC C ip (requireParams ti ch k avail param) := by
  rw [requireParams_eq]
  exact types_foldl_NC hk hav _ _ (NC_frame h k _ hk (fun f => by unfold resetStep; cases param <;> exact ⟨rfl, rfl, rfl⟩))

theorem provideParams_NC {C ip ch avail} (i : Nat) (down : Bool) (layer : Nat)
    (h : NC C ip ch) (hi : OKp C ip i) (hav : AvOK C ip avail) :
    NC C ip (provideParams ch i avail down layer).1 ∧ AvOK C ip (provideParams ch i avail down layer).2 := by
  unfold provideParams
  simp only []
  refine ⟨NC_frame h i _ hi (fun f => by split <;> exact ⟨rfl, rfl, rfl⟩), ?_⟩
  intro e he p hp
  have ⟨s1, _, _⟩ := adds_foldl_spec layer i
    ((if down = true then (ch.get i).c.out else (ch.get i).c.ret).filter
      (fun t => t != tNoType && (t != tUnused || (ch.get i).c.synthetic))) avail
  rcases s1 e he p hp with ⟨e0, he0, hp0⟩ | hpi
  · exact hav e0 he0 p hp0
  · rw [hpi]; exact hi

theorem downStep_NC {ti : TyInfo} {C ip} {acc : Chain × IMap} {i : Nat} (hil : i < acc.1.length)
    (h : NC C ip acc.1) (hav : AvOK C ip acc.2) :
    NC C ip (downStep ti ip acc i).1 ∧ AvOK C ip (downStep ti ip acc i).2 := by
  obtain ⟨ch, avail⟩ := acc
  unfold downStep
  simp only []
  split
  · exact ⟨h, hav⟩
  · rename_i hcan
    have hi : OKp C ip i := Or.inl (by rw [← h.hc i hil]; simpa using hcan)
    have tail : ∀ c1 : Chain, NC C ip c1 →
        NC C ip (provideParams (requireParams ti c1 i avail .inp) i avail true (i + 2)).1 ∧
        AvOK C ip (provideParams (requireParams ti c1 i avail .inp) i avail true (i + 2)).2 :=
      fun c1 h1 => provideParams_NC i true (i + 2) (requireParams_NC h1 hi hav) hi hav
    cases ip with
    | none => exact tail ch h
    | some p =>
      simp only []
      split
      · apply tail
        have hp : OKp C (some p) p := Or.inr rfl
        exact requireParams_NC (NC_frame h p _ hp (fun f => ⟨rfl, rfl, rfl⟩)) hp hav
      · exact tail ch h

theorem upStep_NC {ti : TyInfo} {C ip} {n : Nat} {acc : Chain × IMap} {i : Nat} (hil : i < acc.1.length)
    (h : NC C ip acc.1) (hav : AvOK C ip acc.2) :
    NC C ip (upStep ti n acc i).1 ∧ AvOK C ip (upStep ti n acc i).2 := by
  obtain ⟨ch, avail⟩ := acc
  unfold upStep
  simp only []
  split
  · exact ⟨h, hav⟩
  · rename_i hcan
    have hi : OKp C ip i := Or.inl (by rw [← h.hc i hil]; simpa using hcan)
    exact provideParams_NC i false _ (requireParams_NC h hi hav) hi hav

theorem down_foldl_NC {ti : TyInfo} {C ip} : ∀ (l : List Nat) (acc : Chain × IMap), (∀ i ∈ l, i < acc.1.length) →
    NC C ip acc.1 → AvOK C ip acc.2 →
    NC C ip (l.foldl (downStep ti ip) acc).1 ∧ AvOK C ip (l.foldl (downStep ti ip) acc).2
  | [], _, _, h, hav => ⟨h, hav⟩
  | i :: l, acc, hl, h, hav => by
    simp only [List.foldl_cons]
    have ⟨h1, hav1⟩ := downStep_NC (ti := ti) (hl i (by simp)) h hav
    refine down_foldl_NC l _ (fun j hj => ?_) h1 hav1
    rw [(downStep_SF ti ip acc i).1]; exact hl j (by simp [hj])

theorem up_foldl_NC {ti : TyInfo} {C ip} {n : Nat} : ∀ (l : List Nat) (acc : Chain × IMap), (∀ i ∈ l, i < acc.1.length) →
    NC C ip acc.1 → AvOK C ip acc.2 →
    NC C ip (l.foldl (upStep ti n) acc).1 ∧ AvOK C ip (l.foldl (upStep ti n) acc).2
  | [], _, _, h, hav => ⟨h, hav⟩
  | i :: l, acc, hl, h, hav => by
    simp only [List.foldl_cons]
    have ⟨h1, hav1⟩ := upStep_NC (ti := ti) (n := n) (hl i (by simp)) h hav
    refine up_foldl_NC l _ (fun j hj => ?_) h1 hav1
    rw [(upStep_SF ti n acc i).1]; exact hl j (by simp [hj])

/-- **the marked providers are skipped**: after `providesReturns` a provider marked "cannot be included" (other than
    the init function) has empty dependency lists and is on nobody's list -/
theorem providesReturns_skips (ti : TyInfo) (ch : Chain) (initPos : Option Nat) :
    NC (fun j => (ch.get j).cannot) initPos (providesReturns ti ch initPos) := by
  rw [providesReturns_eq]
  have h0 : NC (fun j => (ch.get j).cannot) initPos (ch.map resetDeps) :=
    { hc := fun j hj => by
        have hj' : j < ch.length := by simpa using hj
        have : Chain.get (ch.map resetDeps) j = resetDeps (ch.get j) := by
          simp [Chain.get, List.getD, List.getElem?_map, List.getElem?_eq_getElem hj']
        rw [this]; rfl
      a := fun k x hx => by
        by_cases hk : k < ch.length
        · have : Chain.get (ch.map resetDeps) k = resetDeps (ch.get k) := by
            simp [Chain.get, List.getD, List.getElem?_map, List.getElem?_eq_getElem hk]
          rw [this] at hx; simp [resetDeps] at hx
        · rw [get_default_of_ge _ k (by simpa using hk)] at hx
          cases hx
      b := fun j _ => by
        by_cases hj : j < ch.length
        · have : Chain.get (ch.map resetDeps) j = resetDeps (ch.get j) := by
            simp [Chain.get, List.getD, List.getElem?_map, List.getElem?_eq_getElem hj]
          rw [this]; exact ⟨rfl, rfl⟩
        · rw [get_default_of_ge _ j (by simpa using hj)]; exact ⟨rfl, rfl⟩ }
  have hav0 : AvOK (fun j => (ch.get j).cannot) initPos ([] : IMap) := fun e he => by cases he
  have ⟨h1, _⟩ := down_foldl_NC (ti := ti) (List.range ch.length) (ch.map resetDeps, ([] : IMap))
    (fun i hi => by simpa using hi) h0 hav0
  have hlen : ((List.range ch.length).foldl (downStep ti initPos) (ch.map resetDeps, ([] : IMap))).1.length = ch.length := by
    rw [(foldl_SF_pair (downStep ti initPos) (fun acc i => downStep_SF ti initPos acc i) (List.range ch.length) _).1]
    simp
  exact (up_foldl_NC (ti := ti) (n := ch.length) (List.range ch.length).reverse
    (((List.range ch.length).foldl (downStep ti initPos) (ch.map resetDeps, ([] : IMap))).1, ([] : IMap))
    (fun i hi => by rw [hlen]; simpa using hi) h1 hav0).1

end Nject
