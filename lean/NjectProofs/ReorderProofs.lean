import Nject.ReorderAlg
/-
  Invariants of `topo.run` (reorder.go) over the model in `Nject/ReorderAlg.lean`, for any fuel,
  any graph and any heap contents that satisfy the static facts `SOK`:

  * every provider index is emitted at most once, only indices `< n` are emitted, and an index is
    emitted exactly when it is marked done (so `out ++ leftOver` is a rearrangement of `0..n-1`);
  * the providers that are not marked Reorder are emitted in their listed order: the emitted ones are
    always a prefix `NR.take k` of the list `NR` of such providers.

  The second needs the chain of strong "comes after the previous fixed provider" edges: a fixed
  provider is only pushed on a heap once its `after` set is empty, and the previous fixed provider
  leaves that set only when it is itself processed.
-/
namespace Nject

/-! ### small facts about the set and map operations -/

theorem NMap.get_set (m : NMap) (k k' : Nat) (v : List Nat) :
    (m.set k v).get k' = if k' = k then v else m.get k' := by
  unfold NMap.set NMap.get
  by_cases h : k' = k
  · subst h; simp [List.lookup]
  · have : (k' == k) = false := by simpa using h
    simp [List.lookup, this, h]

theorem mem_setDel {l : List Nat} {x a : Nat} : a ∈ setDel l x ↔ a ∈ l ∧ a ≠ x := by
  unfold setDel; simp

theorem mem_setIns {l : List Nat} {x a : Nat} : a ∈ setIns l x ↔ a ∈ l ∨ a = x := by
  unfold setIns
  by_cases h : x ∈ l
  · simp only [List.contains_iff_mem, h, if_true]
    constructor
    · exact Or.inl
    · rintro (h' | h')
      · exact h'
      · subst h'; exact h
  · simp [h]

theorem heapMin_mem : ∀ {h : RHeap} {m}, heapMin h = some m → m ∈ h
  | [], m, hm => by simp [heapMin] at hm
  | e :: rest, m, hm => by
    unfold heapMin at hm
    cases hr : heapMin rest with
    | none => simp [hr] at hm; subst hm; simp
    | some m' =>
      simp only [hr] at hm
      by_cases hle : e.1 ≤ m'.1
      · simp [hle] at hm; subst hm; simp
      · simp [hle] at hm; subst hm; exact List.mem_cons_of_mem _ (heapMin_mem hr)

theorem heapPop_spec {h : RHeap} {i : Nat} {rest : RHeap} (hp : heapPop h = some (i, rest)) :
    (∃ p, (p, i) ∈ h) ∧ ∀ e ∈ rest, e ∈ h := by
  unfold heapPop at hp
  cases hm : heapMin h with
  | none => simp [hm] at hp
  | some m =>
    simp only [hm, Option.some.injEq, Prod.mk.injEq] at hp
    obtain ⟨h1, h2⟩ := hp
    subst h1; subst h2
    exact ⟨⟨m.1, heapMin_mem hm⟩, fun e he => List.mem_of_mem_erase he⟩

/-! ### the static facts and the invariant -/

/-- what `topo.run` may assume about the graph it is given (established for `buildGraph` in
    `reorderStatic_ok` below) -/
structure SOK (s : TopoS) (NR : List Nat) : Prop where
  nrEq : NR = (List.range s.n).filter fun i => !s.isReorder i
  beforeLt : ∀ k j, j ∈ s.before.get k → j < s.n
  downGt : ∀ t num, s.downTypes.lookup t = some num → s.n < num
  upGt : ∀ t num, s.upTypes.lookup t = some num → s.n < num

theorem SOK.nodup {s NR} (h : SOK s NR) : NR.Nodup := by
  rw [h.nrEq]; exact List.Pairwise.filter _ List.nodup_range

theorem SOK.mem {s NR} (h : SOK s NR) (i : Nat) : i ∈ NR ↔ (i < s.n ∧ s.isReorder i = false) := by
  rw [h.nrEq]; simp

theorem SOK.idx_inj {s NR} (h : SOK s NR) {j1 j2 a : Nat} (h1 : NR[j1]? = some a) (h2 : NR[j2]? = some a) : j1 = j2 := by
  have hl : j1 < NR.length := by
    rcases Nat.lt_or_ge j1 NR.length with hlt | hge
    · exact hlt
    · rw [List.getElem?_eq_none hge] at h1; cases h1
  exact (List.getElem?_inj hl h.nodup).mp (by rw [h1, h2])

theorem SOK.mem_take {s NR} (h : SOK s NR) {j k a : Nat} (hj : NR[j]? = some a) : a ∈ NR.take k ↔ j < k := by
  constructor
  · intro hm
    obtain ⟨j2, hj2⟩ := List.mem_iff_getElem?.mp hm
    rw [List.getElem?_take] at hj2
    by_cases hlt : j2 < k
    · simp only [hlt, if_true] at hj2
      have := h.idx_inj hj hj2
      omega
    · simp [hlt] at hj2
  · intro hlt
    apply List.mem_iff_getElem?.mpr
    exact ⟨j, by rw [List.getElem?_take]; simp [hlt, hj]⟩

/-- the invariant of the sort, without the list of fixed providers -/
structure Core (s : TopoS) (NR : List Nat) (x : Topo) (k : Nat) : Prop where
  outNodup : x.out.Nodup
  outLt : ∀ i ∈ x.out, i < s.n ∧ i ∈ x.done
  doneOut : ∀ i ∈ x.done, i < s.n → i ∈ x.out
  heapNe : ∀ e, e ∈ x.unblocked ∨ e ∈ x.weakBlocked → e.2 ≠ s.n
  nrPrefix : x.out.filter (fun i => !s.isReorder i) = NR.take k
  heapNR : ∀ e, e ∈ x.unblocked ∨ e ∈ x.weakBlocked → ∀ j, NR[j]? = some e.2 → j ≤ k
  pending : ∀ j a b, NR[j]? = some a → NR[j + 1]? = some b → a ∈ x.after.get b ∨ j < k

theorem Core.mono {s NR x k} (h : Core s NR x k) {x' : Topo}
    (hout : x'.out = x.out) (hdone : x'.done = x.done) (hafter : x'.after = x.after)
    (hu : ∀ e ∈ x'.unblocked, e ∈ x.unblocked) (hw : ∀ e ∈ x'.weakBlocked, e ∈ x.weakBlocked) : Core s NR x' k where
  outNodup := by rw [hout]; exact h.outNodup
  outLt := by rw [hout, hdone]; exact h.outLt
  doneOut := by rw [hout, hdone]; exact h.doneOut
  heapNe := fun e he => h.heapNe e (he.elim (fun a => Or.inl (hu e a)) (fun a => Or.inr (hw e a)))
  nrPrefix := by rw [hout]; exact h.nrPrefix
  heapNR := fun e he => h.heapNR e (he.elim (fun a => Or.inl (hu e a)) (fun a => Or.inr (hw e a)))
  pending := by rw [hafter]; exact h.pending

/-- a done, emitted fixed provider sits in the prefix -/
theorem Core.done_idx {s NR x k} (hs : SOK s NR) (h : Core s NR x k) {j a : Nat} (hj : NR[j]? = some a) (hd : a ∈ x.done) : j < k := by
  have hmem : a ∈ NR := List.mem_iff_getElem?.mpr ⟨j, hj⟩
  have ⟨hlt, hnr⟩ := (hs.mem a).mp hmem
  have hout := h.doneOut a hd hlt
  have : a ∈ x.out.filter (fun i => !s.isReorder i) := by simp [hout, hnr]
  rw [h.nrPrefix] at this
  exact (hs.mem_take hj).mp this

/-! ### `release` and the folds over it -/

theorem release_core {s NR x k} (hs : SOK s NR) (h : Core s NR x k) (n' i : Nat) (hn : n' ≠ s.n)
    (hi : ∀ j, NR[j]? = some i → j < k) : Core s NR (x.release s n' i) k := by
  unfold Topo.release
  by_cases hge : n' ≥ s.n
  · simp only [hge, if_true]
    unfold Topo.pushU
    refine { outNodup := h.outNodup, outLt := h.outLt, doneOut := h.doneOut, nrPrefix := h.nrPrefix, pending := h.pending, heapNe := ?_, heapNR := ?_ }
    · intro e he
      rcases he with he | he
      · rcases List.mem_cons.mp he with rfl | he
        · exact hn
        · exact h.heapNe e (Or.inl he)
      · exact h.heapNe e (Or.inr he)
    · intro e he j hj
      rcases he with he | he
      · rcases List.mem_cons.mp he with rfl | he
        · have hmem : n' ∈ NR := List.mem_iff_getElem?.mpr ⟨j, hj⟩
          have := ((hs.mem n').mp hmem).1
          omega
        · exact h.heapNR e (Or.inl he) j hj
      · exact h.heapNR e (Or.inr he) j hj
  · simp only [hge, if_false]
    -- the state after the two deletions
    let x1 : Topo := { x with after := x.after.set n' (setDel (x.after.get n') i), weakAfter := x.weakAfter.set n' (setDel (x.weakAfter.get n') i) }
    have hpend : ∀ j a b, NR[j]? = some a → NR[j + 1]? = some b → a ∈ x1.after.get b ∨ j < k := by
      intro j a b ha hb
      rcases h.pending j a b ha hb with hin | hlt
      · show a ∈ (x.after.set n' (setDel (x.after.get n') i)).get b ∨ j < k
        rw [NMap.get_set]
        by_cases hb' : b = n'
        · simp only [hb', if_true]
          by_cases hai : a = i
          · subst hai; exact Or.inr (hi j ha)
          · left; rw [mem_setDel]; exact ⟨hb' ▸ hin, hai⟩
        · simp only [hb', if_false]; exact Or.inl hin
      · exact Or.inr hlt
    have h1 : Core s NR x1 k :=
      { outNodup := h.outNodup, outLt := h.outLt, doneOut := h.doneOut, nrPrefix := h.nrPrefix, pending := hpend,
        heapNe := h.heapNe, heapNR := h.heapNR }
    -- a push of n' is justified when its after set is empty
    have hpush : (x1.after.get n').isEmpty → ∀ j, NR[j]? = some n' → j ≤ k := by
      intro hemp j hj
      cases j with
      | zero => omega
      | succ j =>
        have hl : j < NR.length := by
          rcases Nat.lt_or_ge (j + 1) NR.length with hlt | hge'
          · omega
          · rw [List.getElem?_eq_none hge'] at hj; cases hj
        have ha : NR[j]? = some NR[j] := List.getElem?_eq_getElem hl
        rcases hpend j _ _ ha hj with hin | hlt
        · have : x1.after.get n' = [] := by simpa using hemp
          rw [this] at hin; cases hin
        · omega
    show Core s NR (if (x1.after.get n').isEmpty then (if (x1.weakAfter.get n').isEmpty then x1.pushU s n' else x1.pushW s n') else x1) k
    by_cases hemp : (x1.after.get n').isEmpty
    · simp only [hemp, if_true]
      by_cases hw : (x1.weakAfter.get n').isEmpty
      · simp only [hw, if_true]
        unfold Topo.pushU
        refine { outNodup := h1.outNodup, outLt := h1.outLt, doneOut := h1.doneOut, nrPrefix := h1.nrPrefix, pending := h1.pending, heapNe := ?_, heapNR := ?_ }
        · intro e he
          rcases he with he | he
          · rcases List.mem_cons.mp he with rfl | he
            · exact hn
            · exact h1.heapNe e (Or.inl he)
          · exact h1.heapNe e (Or.inr he)
        · intro e he j hj
          rcases he with he | he
          · rcases List.mem_cons.mp he with rfl | he
            · exact hpush hemp j hj
            · exact h1.heapNR e (Or.inl he) j hj
          · exact h1.heapNR e (Or.inr he) j hj
      · simp only [hw, if_false]
        unfold Topo.pushW
        refine { outNodup := h1.outNodup, outLt := h1.outLt, doneOut := h1.doneOut, nrPrefix := h1.nrPrefix, pending := h1.pending, heapNe := ?_, heapNR := ?_ }
        · intro e he
          rcases he with he | he
          · exact h1.heapNe e (Or.inl he)
          · rcases List.mem_cons.mp he with rfl | he
            · exact hn
            · exact h1.heapNe e (Or.inr he)
        · intro e he j hj
          rcases he with he | he
          · exact h1.heapNR e (Or.inl he) j hj
          · rcases List.mem_cons.mp he with rfl | he
            · exact hpush hemp j hj
            · exact h1.heapNR e (Or.inr he) j hj
    · simp only [hemp, if_false]; exact h1

/-- what `release` and the folds over it leave alone -/
structure Frame (x x' : Topo) : Prop where
  out : x'.out = x.out
  done : x'.done = x.done
  cr : x'.cannotReorder = x.cannotReorder

theorem Frame.refl (x : Topo) : Frame x x := ⟨rfl, rfl, rfl⟩
theorem Frame.trans {x y z : Topo} (h1 : Frame x y) (h2 : Frame y z) : Frame x z :=
  ⟨h2.out.trans h1.out, h2.done.trans h1.done, h2.cr.trans h1.cr⟩

theorem release_frame (s : TopoS) (x : Topo) (n' i : Nat) : Frame x (x.release s n' i) := by
  unfold Topo.release Topo.pushU Topo.pushW
  by_cases hge : n' ≥ s.n
  · simp only [hge, if_true]; exact ⟨rfl, rfl, rfl⟩
  · simp only [hge, if_false]
    split
    · split <;> exact ⟨rfl, rfl, rfl⟩
    · exact ⟨rfl, rfl, rfl⟩

theorem foldl_release_core {s NR k} (hs : SOK s NR) (i : Nat) (hi : ∀ j, NR[j]? = some i → j < k) :
    ∀ (l : List Nat) (x : Topo), (∀ n' ∈ l, n' ≠ s.n) → Core s NR x k →
      Core s NR (l.foldl (fun x n' => x.release s n' i) x) k ∧ Frame x (l.foldl (fun x n' => x.release s n' i) x)
  | [], x, _, h => ⟨h, Frame.refl x⟩
  | n' :: l, x, hl, h => by
    simp only [List.foldl_cons]
    have h1 := release_core hs h n' i (hl n' (by simp)) hi
    have ⟨h2, f2⟩ := foldl_release_core hs i hi l _ (fun a ha => hl a (by simp [ha])) h1
    exact ⟨h2, (release_frame s x n' i).trans f2⟩

theorem releaseNode_core {s NR x k} (hs : SOK s NR) (h : Core s NR x k) (i : Nat) (hi : ∀ j, NR[j]? = some i → j < k) :
    Core s NR (x.releaseNode s i) k ∧ Frame x (x.releaseNode s i) := by
  unfold Topo.releaseNode
  -- the first fold only touches weakAfter
  have hfold : ∀ (l : List Nat) (y : Topo), Core s NR y k →
      Core s NR (l.foldl (fun (x : Topo) n => { x with weakAfter := x.weakAfter.set n (setDel (x.weakAfter.get n) i) }) y) k ∧
      Frame y (l.foldl (fun (x : Topo) n => { x with weakAfter := x.weakAfter.set n (setDel (x.weakAfter.get n) i) }) y) := by
    intro l
    induction l with
    | nil => intro y hy; exact ⟨hy, Frame.refl y⟩
    | cons a l ih =>
      intro y hy
      simp only [List.foldl_cons]
      have hy' : Core s NR { y with weakAfter := y.weakAfter.set a (setDel (y.weakAfter.get a) i) } k :=
        hy.mono rfl rfl rfl (fun _ he => he) (fun _ he => he)
      have ⟨c, f⟩ := ih _ hy'
      exact ⟨c, ⟨f.out, f.done, f.cr⟩⟩
  have ⟨c1, f1⟩ := hfold (s.weakBefore.get i) x h
  have ⟨c2, f2⟩ := foldl_release_core hs i hi (s.before.get i) _
    (fun n' hn' => by have := hs.beforeLt i n' hn'; omega) c1
  exact ⟨c2, f1.trans f2⟩

theorem foldl_releaseTy_core {s NR k} (hs : SOK s NR) (i : Nat) (hi : ∀ j, NR[j]? = some i → j < k)
    (tbl : List (Ty × Nat)) (htbl : ∀ t num, tbl.lookup t = some num → s.n < num) :
    ∀ (l : List Ty) (x : Topo), Core s NR x k →
      Core s NR (l.foldl (fun x t => match tbl.lookup t with | some num => x.release s num i | none => x) x) k ∧
      Frame x (l.foldl (fun x t => match tbl.lookup t with | some num => x.release s num i | none => x) x)
  | [], x, h => ⟨h, Frame.refl x⟩
  | t :: l, x, h => by
    simp only [List.foldl_cons]
    cases hl : tbl.lookup t with
    | none =>
      simp only []
      exact foldl_releaseTy_core hs i hi tbl htbl l x h
    | some num =>
      simp only []
      have hne : num ≠ s.n := by have := htbl t num hl; omega
      have h1 := release_core hs h num i hne hi
      have ⟨h2, f2⟩ := foldl_releaseTy_core hs i hi tbl htbl l _ h1
      exact ⟨h2, (release_frame s x num i).trans f2⟩

theorem releaseProvider_core {s NR x k} (hs : SOK s NR) (h : Core s NR x k) (i : Nat) (hi : ∀ j, NR[j]? = some i → j < k) :
    Core s NR (x.releaseProvider s i) k ∧ Frame x (x.releaseProvider s i) := by
  unfold Topo.releaseProvider
  have ⟨c1, f1⟩ := foldl_releaseTy_core hs i hi s.downTypes hs.downGt (s.outOf i) x h
  have ⟨c2, f2⟩ := foldl_releaseTy_core hs i hi s.upTypes hs.upGt (s.recvOf i) _ c1
  exact ⟨c2, f1.trans f2⟩

/-! ### `processOne` -/

theorem processOne_core {s NR x k} (hs : SOK s NR) (h : Core s NR x k) (i : Nat) (rel : Bool) (hne : i ≠ s.n)
    (hpos : ∀ j, NR[j]? = some i → j ≤ k) :
    ∃ k', k ≤ k' ∧ Core s NR (x.processOne s i rel) k' ∧ i ∈ (x.processOne s i rel).done ∧
      (∀ a ∈ x.done, a ∈ (x.processOne s i rel).done) ∧ (x.processOne s i rel).cannotReorder = x.cannotReorder := by
  unfold Topo.processOne
  by_cases hd : x.done.contains i
  · simp only [hd, if_true]
    exact ⟨k, Nat.le_refl _, h, by simpa using hd, fun a ha => ha, by first | rfl | trivial⟩
  · simp only [hd, if_false]
    have hnd : i ∉ x.done := by simpa using hd
    by_cases hgt : i > s.n
    · simp only [hgt, if_true]
      let x1 : Topo := { x with done := i :: x.done }
      have c1 : Core s NR x1 k :=
        { outNodup := h.outNodup
          outLt := fun a ha => ⟨(h.outLt a ha).1, List.mem_cons_of_mem _ (h.outLt a ha).2⟩
          doneOut := fun a ha hlt => by
            rcases List.mem_cons.mp ha with rfl | ha
            · omega
            · exact h.doneOut a ha hlt
          heapNe := h.heapNe, nrPrefix := h.nrPrefix, heapNR := h.heapNR, pending := h.pending }
      have hi : ∀ j, NR[j]? = some i → j < k := by
        intro j hj
        have := ((hs.mem i).mp (List.mem_iff_getElem?.mpr ⟨j, hj⟩)).1
        omega
      cases rel with
      | false =>
        exact ⟨k, Nat.le_refl _, c1, by simp [x1], fun a ha => List.mem_cons_of_mem _ ha, rfl⟩
      | true =>
        have ⟨c2, f2⟩ := releaseNode_core hs c1 i hi
        refine ⟨k, Nat.le_refl _, c2, ?_, ?_, ?_⟩
        · show i ∈ (x1.releaseNode s i).done
          rw [f2.done]; simp [x1]
        · intro a ha
          show a ∈ (x1.releaseNode s i).done
          rw [f2.done]; exact List.mem_cons_of_mem _ ha
        · show (x1.releaseNode s i).cannotReorder = x.cannotReorder
          rw [f2.cr]
    · simp only [hgt, if_false]
      have hlt : i < s.n := by omega
      let x2 : Topo := { x with done := i :: x.done, out := x.out ++ [i] }
      have hnotout : i ∉ x.out := fun hin => hnd (h.outLt i hin).2
      -- the new prefix length
      by_cases hr : s.isReorder i = true
      · -- a Reorder'd provider: the prefix of fixed providers does not change
        have hnotNR : ∀ j : Nat, NR[j]? = some i → False := by
          intro j hj
          have := ((hs.mem i).mp (List.mem_iff_getElem?.mpr ⟨j, hj⟩)).2
          rw [hr] at this; cases this
        have c2 : Core s NR x2 k :=
          { outNodup := by
              show (x.out ++ [i]).Nodup
              rw [List.nodup_append]
              exact ⟨h.outNodup, by simp, fun a ha b hb => by simp at hb; subst hb; intro hab; subst hab; exact hnotout ha⟩
            outLt := fun a ha => by
              rcases List.mem_append.mp ha with ha | ha
              · exact ⟨(h.outLt a ha).1, List.mem_cons_of_mem _ (h.outLt a ha).2⟩
              · simp at ha; subst ha; exact ⟨hlt, by simp [x2]⟩
            doneOut := fun a ha hl => by
              show a ∈ x.out ++ [i]
              rcases List.mem_cons.mp ha with rfl | ha
              · simp
              · exact List.mem_append_left _ (h.doneOut a ha hl)
            heapNe := h.heapNe
            nrPrefix := by
              show (x.out ++ [i]).filter (fun i => !s.isReorder i) = NR.take k
              rw [List.filter_append, h.nrPrefix]; simp [hr]
            heapNR := h.heapNR, pending := h.pending }
        have hi : ∀ j, NR[j]? = some i → j < k := fun j hj => (hnotNR j hj).elim
        have ⟨c3, f3⟩ := releaseNode_core hs c2 i hi
        cases rel with
        | false =>
          refine ⟨k, Nat.le_refl _, c3, ?_, ?_, ?_⟩
          · show i ∈ (x2.releaseNode s i).done
            rw [f3.done]; simp [x2]
          · intro a ha
            show a ∈ (x2.releaseNode s i).done
            rw [f3.done]; exact List.mem_cons_of_mem _ ha
          · show (x2.releaseNode s i).cannotReorder = x.cannotReorder
            rw [f3.cr]
        | true =>
          have ⟨c4, f4⟩ := releaseProvider_core hs c3 i hi
          refine ⟨k, Nat.le_refl _, c4, ?_, ?_, ?_⟩
          · show i ∈ ((x2.releaseNode s i).releaseProvider s i).done
            rw [f4.done, f3.done]; simp [x2]
          · intro a ha
            show a ∈ ((x2.releaseNode s i).releaseProvider s i).done
            rw [f4.done, f3.done]; exact List.mem_cons_of_mem _ ha
          · show ((x2.releaseNode s i).releaseProvider s i).cannotReorder = x.cannotReorder
            rw [f4.cr, f3.cr]
      · -- a fixed provider: it is the next one of NR
        have hr' : s.isReorder i = false := by simpa using hr
        have hmem : i ∈ NR := (hs.mem i).mpr ⟨hlt, hr'⟩
        obtain ⟨j0, hj0⟩ := List.mem_iff_getElem?.mp hmem
        have hj0k : j0 = k := by
          have hle := hpos j0 hj0
          rcases Nat.lt_or_ge j0 k with hlt' | hge
          · -- then i is already in the prefix, hence emitted, hence done
            have : i ∈ NR.take k := (hs.mem_take hj0).mpr hlt'
            rw [← h.nrPrefix] at this
            have := (List.mem_filter.mp this).1
            exact (hnotout this).elim
          · omega
        subst hj0k
        have c2 : Core s NR x2 (j0 + 1) :=
          { outNodup := by
              show (x.out ++ [i]).Nodup
              rw [List.nodup_append]
              exact ⟨h.outNodup, by simp, fun a ha b hb => by simp at hb; subst hb; intro hab; subst hab; exact hnotout ha⟩
            outLt := fun a ha => by
              rcases List.mem_append.mp ha with ha | ha
              · exact ⟨(h.outLt a ha).1, List.mem_cons_of_mem _ (h.outLt a ha).2⟩
              · simp at ha; subst ha; exact ⟨hlt, by simp [x2]⟩
            doneOut := fun a ha hl => by
              show a ∈ x.out ++ [i]
              rcases List.mem_cons.mp ha with rfl | ha
              · simp
              · exact List.mem_append_left _ (h.doneOut a ha hl)
            heapNe := h.heapNe
            nrPrefix := by
              show (x.out ++ [i]).filter (fun i => !s.isReorder i) = NR.take (j0 + 1)
              rw [List.filter_append, h.nrPrefix, List.take_add_one, hj0]; simp [hr']
            heapNR := fun e he j hj => Nat.le_succ_of_le (h.heapNR e he j hj)
            pending := fun j a b ha hb => (h.pending j a b ha hb).elim Or.inl (fun hl => Or.inr (Nat.lt_succ_of_lt hl)) }
        have hi : ∀ j, NR[j]? = some i → j < j0 + 1 := by
          intro j hj
          have := hs.idx_inj hj hj0
          omega
        have ⟨c3, f3⟩ := releaseNode_core hs c2 i hi
        cases rel with
        | false =>
          refine ⟨j0 + 1, Nat.le_succ _, c3, ?_, ?_, ?_⟩
          · show i ∈ (x2.releaseNode s i).done
            rw [f3.done]; simp [x2]
          · intro a ha
            show a ∈ (x2.releaseNode s i).done
            rw [f3.done]; exact List.mem_cons_of_mem _ ha
          · show (x2.releaseNode s i).cannotReorder = x.cannotReorder
            rw [f3.cr]
        | true =>
          have ⟨c4, f4⟩ := releaseProvider_core hs c3 i hi
          refine ⟨j0 + 1, Nat.le_succ _, c4, ?_, ?_, ?_⟩
          · show i ∈ ((x2.releaseNode s i).releaseProvider s i).done
            rw [f4.done, f3.done]; simp [x2]
          · intro a ha
            show a ∈ ((x2.releaseNode s i).releaseProvider s i).done
            rw [f4.done, f3.done]; exact List.mem_cons_of_mem _ ha
          · show ((x2.releaseNode s i).releaseProvider s i).cannotReorder = x.cannotReorder
            rw [f4.cr, f3.cr]

/-! ### the loop -/

/-- the whole invariant: `Core` plus the queue of fixed providers, a suffix of `NR` whose
    complement has been processed -/
structure Full (s : TopoS) (NR : List Nat) (x : Topo) where
  k : Nat
  m : Nat
  core : Core s NR x k
  cr : x.cannotReorder = NR.drop m
  crDone : ∀ j a, j < m → NR[j]? = some a → a ∈ x.done

theorem loop_full {s NR} (hs : SOK s NR) : ∀ (fuel : Nat) (x : Topo), Nonempty (Full s NR x) → Nonempty (Full s NR (Topo.loop s fuel x))
  | 0, x, ⟨f⟩ => by
    unfold Topo.loop
    exact ⟨⟨f.k, f.m, f.core.mono rfl rfl rfl (fun _ h => h) (fun _ h => h), f.cr, f.crDone⟩⟩
  | fuel + 1, x, ⟨f⟩ => by
    unfold Topo.loop
    cases hu : heapPop x.unblocked with
    | some pr =>
      obtain ⟨i, rest⟩ := pr
      simp only []
      have ⟨⟨p, hp⟩, hrest⟩ := heapPop_spec hu
      let x1 : Topo := { x with unblocked := rest }
      have c1 : Core s NR x1 f.k := f.core.mono rfl rfl rfl hrest (fun _ h => h)
      have hne : i ≠ s.n := f.core.heapNe (p, i) (Or.inl hp)
      have hpos : ∀ j, NR[j]? = some i → j ≤ f.k := f.core.heapNR (p, i) (Or.inl hp)
      obtain ⟨k', _, c2, _, hsub, hcr⟩ := processOne_core hs c1 i true hne hpos
      apply loop_full hs fuel
      exact ⟨⟨k', f.m, c2, by rw [hcr]; exact f.cr, fun j a hj ha => hsub a (f.crDone j a hj ha)⟩⟩
    | none =>
      simp only []
      cases hw : heapPop x.weakBlocked with
      | some pr =>
        obtain ⟨i, rest⟩ := pr
        simp only []
        have ⟨⟨p, hp⟩, hrest⟩ := heapPop_spec hw
        let x1 : Topo := { x with weakBlocked := rest }
        have c1 : Core s NR x1 f.k := f.core.mono rfl rfl rfl (fun _ h => h) hrest
        have hne : i ≠ s.n := f.core.heapNe (p, i) (Or.inr hp)
        have hpos : ∀ j, NR[j]? = some i → j ≤ f.k := f.core.heapNR (p, i) (Or.inr hp)
        obtain ⟨k', _, c2, _, hsub, hcr⟩ := processOne_core hs c1 i true hne hpos
        apply loop_full hs fuel
        exact ⟨⟨k', f.m, c2, by rw [hcr]; exact f.cr, fun j a hj ha => hsub a (f.crDone j a hj ha)⟩⟩
      | none =>
        simp only []
        cases hc : x.cannotReorder with
        | nil => simp only []; exact ⟨f⟩
        | cons i cr =>
          simp only []
          let x1 : Topo := { x with cannotReorder := cr }
          have c1 : Core s NR x1 f.k := f.core.mono rfl rfl rfl (fun _ h => h) (fun _ h => h)
          -- i is NR[m]
          have hdrop : NR.drop f.m = i :: cr := by rw [← f.cr, hc]
          have hml : f.m < NR.length := by
            rcases Nat.lt_or_ge f.m NR.length with h | h
            · exact h
            · rw [List.drop_eq_nil_of_le h] at hdrop; cases hdrop
          have hmi : NR[f.m]? = some i := by
            rw [List.drop_eq_getElem_cons hml] at hdrop
            rw [List.getElem?_eq_getElem hml]
            exact congrArg some (List.cons.inj hdrop).1
          have hcr' : cr = NR.drop (f.m + 1) := by
            rw [List.drop_eq_getElem_cons hml] at hdrop
            exact (List.cons.inj hdrop).2.symm
          have hne : i ≠ s.n := by
            have := ((hs.mem i).mp (List.mem_iff_getElem?.mpr ⟨f.m, hmi⟩)).1
            omega
          -- all earlier fixed providers are done, hence in the prefix: m ≤ k
          have hmk : f.m ≤ f.k := by
            rcases Nat.lt_or_ge f.k f.m with hlt | hge
            · have hkl : f.k < NR.length := by omega
              have hk : NR[f.k]? = some NR[f.k] := List.getElem?_eq_getElem hkl
              have hd := f.crDone f.k _ hlt hk
              have := f.core.done_idx hs hk hd
              omega
            · exact hge
          have hpos : ∀ j, NR[j]? = some i → j ≤ f.k := by
            intro j hj
            have := hs.idx_inj hj hmi
            omega
          obtain ⟨k', _, c2, hin, hsub, hcr2⟩ := processOne_core hs c1 i ((x.after.get i).isEmpty) hne hpos
          apply loop_full hs fuel
          refine ⟨⟨k', f.m + 1, c2, by rw [hcr2]; exact hcr', ?_⟩⟩
          intro j a hj ha
          rcases Nat.lt_or_ge j f.m with hlt | hge
          · exact hsub a (f.crDone j a hlt ha)
          · have : j = f.m := by omega
            subst this
            rw [hmi] at ha
            cases ha
            exact hin

/-! ### what the invariant says about the result -/

theorem full_order_perm {s NR x} (_hs : SOK s NR) (f : Full s NR x) : (x.order s).Perm (List.range s.n) := by
  unfold Topo.order Topo.leftOver
  have hnd : (x.out ++ (List.range s.n).filter fun i => !x.done.contains i).Nodup := by
    rw [List.nodup_append]
    refine ⟨f.core.outNodup, List.Pairwise.filter _ List.nodup_range, ?_⟩
    intro a ha b hb hab
    subst hab
    have := (f.core.outLt a ha).2
    simp at hb
    exact hb.2 this
  rw [List.perm_ext_iff_of_nodup hnd List.nodup_range]
  intro a
  simp only [List.mem_append, List.mem_filter, List.mem_range]
  constructor
  · rintro (h | h)
    · exact (f.core.outLt a h).1
    · exact h.1
  · intro hlt
    by_cases hd : a ∈ x.done
    · exact Or.inl (f.core.doneOut a hd hlt)
    · exact Or.inr ⟨hlt, by simpa using hd⟩

theorem full_order_fixed {s NR x} (hs : SOK s NR) (f : Full s NR x) :
    (x.order s).filter (fun i => !s.isReorder i) = NR := by
  unfold Topo.order Topo.leftOver
  rw [List.filter_append, f.core.nrPrefix, List.filter_filter]
  have : (List.range s.n).filter (fun a => (!s.isReorder a) && !x.done.contains a)
      = NR.filter (fun a => !x.done.contains a) := by
    rw [hs.nrEq, List.filter_filter]
    congr 1
    funext a
    exact Bool.and_comm _ _
  rw [this]
  conv => rhs; rw [← List.take_append_drop f.k NR]
  congr 1
  conv => lhs; rw [← List.take_append_drop f.k NR]
  rw [List.filter_append]
  have h1 : (NR.take f.k).filter (fun a => !x.done.contains a) = [] := by
    rw [List.filter_eq_nil_iff]
    intro a ha
    rw [← f.core.nrPrefix] at ha
    have := (f.core.outLt a (List.mem_filter.mp ha).1).2
    simp [this]
  have h2 : (NR.drop f.k).filter (fun a => !x.done.contains a) = NR.drop f.k := by
    rw [List.filter_eq_self]
    intro a ha
    obtain ⟨j, hj⟩ := List.mem_iff_getElem?.mp ha
    rw [List.getElem?_drop] at hj
    by_cases hd : a ∈ x.done
    · have := f.core.done_idx hs hj hd
      omega
    · simpa using hd
  rw [h1, h2]; rfl

end Nject

namespace Nject

/-! ### the graph `buildGraph` makes satisfies the static facts, and `topoInit` the invariant -/

/-- one step of graph construction on behalf of provider `i`: pairs are only added, the added strong
    pairs start at `i`, type nodes get fresh numbers, the list of fixed providers is left alone -/
structure GStep (i : Nat) (g g' : RGraph) : Prop where
  n : g'.n = g.n
  cr : g'.cannotReorder = g.cannotReorder
  last : g'.lastNoReorder = g.lastNoReorder
  strongMono : ∀ p ∈ g.strong, p ∈ g'.strong
  strongNew : ∀ p ∈ g'.strong, p ∈ g.strong ∨ p.1 = i
  counter : g.counter ≤ g'.counter
  down : ∀ e ∈ g'.downTypes, e ∈ g.downTypes ∨ g.counter ≤ e.2
  up : ∀ e ∈ g'.upTypes, e ∈ g.upTypes ∨ g.counter ≤ e.2

theorem GStep.refl (i : Nat) (g : RGraph) : GStep i g g :=
  ⟨rfl, rfl, rfl, fun _ h => h, fun _ h => Or.inl h, Nat.le_refl _, fun _ h => Or.inl h, fun _ h => Or.inl h⟩

theorem GStep.trans {i : Nat} {a b c : RGraph} (h1 : GStep i a b) (h2 : GStep i b c) : GStep i a c where
  n := h2.n.trans h1.n
  cr := h2.cr.trans h1.cr
  last := h2.last.trans h1.last
  strongMono := fun p hp => h2.strongMono p (h1.strongMono p hp)
  strongNew := fun p hp => (h2.strongNew p hp).elim (h1.strongNew p) Or.inr
  counter := Nat.le_trans h1.counter h2.counter
  down := fun e he => (h2.down e he).elim (h1.down e) (fun h => Or.inr (Nat.le_trans h1.counter h))
  up := fun e he => (h2.up e he).elim (h1.up e) (fun h => Or.inr (Nat.le_trans h1.counter h))

theorem after_weak_gstep (i i' : Nat) (g : RGraph) (j : Option Nat) : GStep i g (g.after false i' j) := by
  unfold RGraph.after
  cases j with
  | none => exact GStep.refl i g
  | some j => exact ⟨rfl, rfl, rfl, fun _ h => h, fun _ h => Or.inl h, Nat.le_refl _, fun _ h => Or.inl h, fun _ h => Or.inl h⟩

theorem after_gstep (i : Nat) (g : RGraph) (b : Bool) (j : Option Nat) : GStep i g (g.after b i j) := by
  cases b with
  | false => exact after_weak_gstep i i g j
  | true =>
    unfold RGraph.after
    cases j with
    | none => exact GStep.refl i g
    | some j =>
      refine ⟨rfl, rfl, rfl, fun p h => by simp [h], ?_, Nat.le_refl _, fun _ h => Or.inl h, fun _ h => Or.inl h⟩
      intro p hp
      simp only [if_true, List.mem_append, List.mem_singleton] at hp
      rcases hp with hp | hp
      · exact Or.inl hp
      · subst hp; exact Or.inr rfl

theorem foldl_gstep {α} (i : Nat) (f : RGraph → α → RGraph) (hf : ∀ g a, GStep i g (f g a)) :
    ∀ (l : List α) (g : RGraph), GStep i g (l.foldl f g)
  | [], g => GStep.refl i g
  | a :: l, g => (hf g a).trans (foldl_gstep i f hf l (f g a))

theorem downType_gstep (funcs : List CP) (i : Nat) (t : Ty) (g : RGraph) : GStep i g (g.downType funcs i t) := by
  unfold RGraph.downType
  refine GStep.trans ?_ (foldl_gstep i _ (fun g j => after_weak_gstep i i g (some j)) _ _)
  cases g.downTypes.lookup t with
  | some num => exact after_gstep i g true (some num)
  | none =>
    have h := after_gstep i g true (some g.counter)
    exact ⟨h.n, h.cr, h.last, h.strongMono, h.strongNew, Nat.le_succ _,
      fun e he => by
        simp only [List.mem_append, List.mem_singleton] at he
        rcases he with he | he
        · exact Or.inl he
        · subst he; exact Or.inr (Nat.le_refl _),
      h.up⟩

theorem upType_gstep (funcs : List CP) (i : Nat) (t : Ty) (co : Bool) (g : RGraph) : GStep i g (g.upType funcs i t co) := by
  unfold RGraph.upType
  refine GStep.trans ?_ (foldl_gstep i _ (fun g j => after_weak_gstep i i g (some j)) _ _)
  cases g.upTypes.lookup t with
  | some num => exact after_gstep i g (!co) (some num)
  | none =>
    have h := after_gstep i g (!co) (some g.counter)
    exact ⟨h.n, h.cr, h.last, h.strongMono, h.strongNew, Nat.le_succ _, h.down,
      fun e he => by
        simp only [List.mem_append, List.mem_singleton] at he
        rcases he with he | he
        · exact Or.inl he
        · subst he; exact Or.inr (Nat.le_refl _)⟩

/-- the invariant of the loop over providers in `buildGraph`, after the first `p` of them -/
structure GInv (n : Nat) (nr : Nat → Bool) (g : RGraph) (p : Nat) : Prop where
  counter : n < g.counter
  cr : g.cannotReorder = (List.range p).filter nr
  last : g.lastNoReorder = g.cannotReorder.getLast?
  strongLt : ∀ pr ∈ g.strong, pr.1 < n
  down : ∀ e ∈ g.downTypes, n < e.2
  up : ∀ e ∈ g.upTypes, n < e.2
  chain : ∀ j a b, g.cannotReorder[j]? = some a → g.cannotReorder[j + 1]? = some b → (b, a) ∈ g.strong

theorem GInv.step {n nr g p i g'} (h : GInv n nr g p) (hi : i < n) (hs : GStep i g g') : GInv n nr g' p where
  counter := Nat.lt_of_lt_of_le h.counter hs.counter
  cr := by rw [hs.cr]; exact h.cr
  last := by rw [hs.last, hs.cr]; exact h.last
  strongLt := fun pr hp => (hs.strongNew pr hp).elim (h.strongLt pr) (fun e => e ▸ hi)
  down := fun e he => (hs.down e he).elim (h.down e) (fun hle => Nat.lt_of_lt_of_le h.counter hle)
  up := fun e he => (hs.up e he).elim (h.up e) (fun hle => Nat.lt_of_lt_of_le h.counter hle)
  chain := by rw [hs.cr]; exact fun j a b ha hb => hs.strongMono _ (h.chain j a b ha hb)

theorem getElem?_append_singleton_pair {l : List Nat} {i j a b : Nat}
    (ha : (l ++ [i])[j]? = some a) (hb : (l ++ [i])[j + 1]? = some b) :
    (l[j]? = some a ∧ l[j + 1]? = some b) ∨ (l.getLast? = some a ∧ b = i) := by
  rcases Nat.lt_or_ge (j + 1) l.length with hlt | hge
  · left
    rw [List.getElem?_append_left (by omega)] at ha
    rw [List.getElem?_append_left hlt] at hb
    exact ⟨ha, hb⟩
  · right
    have hjl : j < l.length := by
      rcases Nat.lt_or_ge j l.length with h | h
      · exact h
      · have : (l ++ [i])[j + 1]? = none := by
          apply List.getElem?_eq_none; simp; omega
        rw [this] at hb; cases hb
    have hj1 : j + 1 = l.length := by omega
    rw [List.getElem?_append_left hjl] at ha
    rw [List.getElem?_append_right (by omega)] at hb
    have : j + 1 - l.length = 0 := by omega
    rw [this] at hb
    simp at hb
    refine ⟨?_, hb.symm⟩
    rw [List.getLast?_eq_getElem?]
    have : l.length - 1 = j := by omega
    rw [this]; exact ha

theorem addProvider_ginv {ti funcs aDown aUp lastStatic finalFunc g p} (hp : p < funcs.length)
    (h : GInv funcs.length (fun i => !(funcs.getD i default).reorder) g p) :
    GInv funcs.length (fun i => !(funcs.getD i default).reorder)
      (g.addProvider ti funcs aDown aUp lastStatic finalFunc p (funcs.getD p default)) (p + 1) := by
  unfold RGraph.addProvider
  generalize hfm0 : funcs.getD p default = fm
  have hfm : funcs[p]?.getD default = fm := by rw [← hfm0, List.getD_eq_getElem?_getD]
  -- first two conditionals: GSteps
  let g1 := if fm.reorder && fm.group == .runGroup then g.after true p lastStatic else g
  have s1 : GStep p g g1 := by
    show GStep p g (if fm.reorder && fm.group == .runGroup then g.after true p lastStatic else g)
    split
    · exact after_gstep p g true lastStatic
    · exact GStep.refl p g
  let g2 := if fm.reorder && some p != finalFunc then
      (match finalFunc with | some ff => g1.after false ff (some p) | none => g1) else g1
  have s2 : GStep p g1 g2 := by
    show GStep p g1 (if fm.reorder && some p != finalFunc then
      (match finalFunc with | some ff => g1.after false ff (some p) | none => g1) else g1)
    split
    · cases finalFunc with
      | none => exact GStep.refl p g1
      | some ff => exact after_weak_gstep p ff g1 (some p)
    · exact GStep.refl p g1
  have i2 : GInv funcs.length (fun i => !(funcs.getD i default).reorder) g2 p := h.step hp (s1.trans s2)
  -- the fixed-provider step
  let g3 := if !fm.reorder then
      { (g2.after true p g2.lastNoReorder) with cannotReorder := g2.cannotReorder ++ [p], lastNoReorder := some p } else g2
  have i3 : GInv funcs.length (fun i => !(funcs.getD i default).reorder) g3 (p + 1) := by
    show GInv _ _ (if !fm.reorder then
      { (g2.after true p g2.lastNoReorder) with cannotReorder := g2.cannotReorder ++ [p], lastNoReorder := some p } else g2) (p + 1)
    by_cases hr : fm.reorder = true
    · simp only [hr, Bool.not_true, Bool.false_eq_true, if_false]
      exact { i2 with cr := by rw [i2.cr, List.range_succ, List.filter_append]; simp [hfm, hr] }
    · have hr' : fm.reorder = false := by simpa using hr
      simp only [hr', Bool.not_false, if_true]
      have sa := after_gstep p g2 true g2.lastNoReorder
      have ia := i2.step hp sa
      refine { counter := ia.counter, strongLt := ia.strongLt, down := ia.down, up := ia.up, cr := ?_, last := ?_, chain := ?_ }
      · show g2.cannotReorder ++ [p] = _
        rw [i2.cr, List.range_succ, List.filter_append]; simp [hfm, hr']
      · show some p = (g2.cannotReorder ++ [p]).getLast?
        simp
      · intro j a b ha hb
        show (b, a) ∈ (g2.after true p g2.lastNoReorder).strong
        rcases getElem?_append_singleton_pair ha hb with ⟨ha', hb'⟩ | ⟨hl, hbp⟩
        · exact sa.strongMono _ (i2.chain j a b ha' hb')
        · subst hbp
          rw [i2.last, hl]
          unfold RGraph.after
          simp
  -- the two folds over input and returned types
  refine (i3.step hp ?_)
  refine GStep.trans (foldl_gstep p _ (fun g tRaw => ?_) _ _) (foldl_gstep p _ (fun g tRaw => ?_) _ _)
  · cases bestMatch ti (fun p => (funcs.getD p default).loose) aDown tRaw with
    | none => exact GStep.refl p g
    | some r => exact downType_gstep funcs p r.1 g
  · cases bestMatch ti (fun p => (funcs.getD p default).loose) aUp tRaw with
    | none => exact GStep.refl p g
    | some r => exact upType_gstep funcs p r.1 _ g

theorem buildGraph_ginv (ti : TyInfo) (funcs : List CP) (hasInit : Bool) :
    GInv funcs.length (fun i => !(funcs.getD i default).reorder) (buildGraph ti funcs hasInit) funcs.length := by
  unfold buildGraph
  have key : ∀ p, p ≤ funcs.length → ∀ aDown aUp lastStatic finalFunc,
      GInv funcs.length (fun i => !(funcs.getD i default).reorder)
        ((List.range p).foldl (fun g i => g.addProvider ti funcs aDown aUp lastStatic finalFunc i (funcs.getD i default))
          { n := funcs.length, counter := funcs.length + 1 }) p := by
    intro p
    induction p with
    | zero =>
      intro _ _ _ _ _
      exact { counter := Nat.lt_succ_self _, cr := rfl, last := rfl, strongLt := (fun _ h => by cases h),
              down := (fun _ h => by cases h), up := (fun _ h => by cases h),
              chain := (fun j a b ha _ => by simp at ha) }
    | succ p ih =>
      intro hp aDown aUp lastStatic finalFunc
      rw [List.range_succ, List.foldl_append]
      simp only [List.foldl_cons, List.foldl_nil]
      exact addProvider_ginv (by omega) (ih (by omega) aDown aUp lastStatic finalFunc)
  exact key funcs.length (Nat.le_refl _) _ _ _ _

/-! #### `buildNodes` -/

theorem NMap.get_nil (k : Nat) : NMap.get ([] : NMap) k = [] := rfl

theorem buildNodes_fold1 (S : List (Nat × Nat)) : ∀ (l : List (Nat × Nat)) (ns : Nodes),
    (∀ k j, j ∈ ns.before.get k → (j, k) ∈ S) →
    let r := l.foldl (fun (ns : Nodes) (p : Nat × Nat) =>
      { ns with before := ns.before.set p.2 (setIns (ns.before.get p.2) p.1),
                after := ns.after.set p.1 (setIns (ns.after.get p.1) p.2) }) ns
    (∀ k j, j ∈ r.before.get k → (j, k) ∈ S ∨ (j, k) ∈ l) ∧
    (∀ i j, j ∈ ns.after.get i → j ∈ r.after.get i) ∧
    (∀ p ∈ l, p.2 ∈ r.after.get p.1)
  | [], ns, h => ⟨fun k j hj => Or.inl (h k j hj), fun _ _ hj => hj, fun _ hp => by cases hp⟩
  | q :: l, ns, h => by
    simp only [List.foldl_cons]
    let ns1 : Nodes := { ns with before := ns.before.set q.2 (setIns (ns.before.get q.2) q.1),
                                 after := ns.after.set q.1 (setIns (ns.after.get q.1) q.2) }
    have h1 : ∀ k j, j ∈ ns1.before.get k → (j, k) ∈ q :: S := by
      intro k j hj
      show (j, k) ∈ q :: S
      have hj' : j ∈ (ns.before.set q.2 (setIns (ns.before.get q.2) q.1)).get k := hj
      rw [NMap.get_set] at hj'
      by_cases hk : k = q.2
      · simp only [hk, if_true] at hj'
        rcases mem_setIns.mp hj' with hj' | hj'
        · exact List.mem_cons_of_mem _ (h k j (hk ▸ hj'))
        · subst hj'; subst hk; simp
      · simp only [hk, if_false] at hj'
        exact List.mem_cons_of_mem _ (h k j hj')
    have ⟨r1, r2, r3⟩ := buildNodes_fold1 (q :: S) l ns1 h1
    refine ⟨?_, ?_, ?_⟩
    · intro k j hj
      rcases r1 k j hj with hq | hl
      · rcases List.mem_cons.mp hq with hq | hq
        · right; rw [hq]; simp
        · exact Or.inl hq
      · exact Or.inr (List.mem_cons_of_mem _ hl)
    · intro i j hj
      apply r2
      show j ∈ (ns.after.set q.1 (setIns (ns.after.get q.1) q.2)).get i
      rw [NMap.get_set]
      by_cases hi : i = q.1
      · simp only [hi, if_true]; exact mem_setIns.mpr (Or.inl (hi ▸ hj))
      · simp only [hi, if_false]; exact hj
    · intro p hp
      rcases List.mem_cons.mp hp with hp | hp
      · subst hp
        apply r2
        show p.2 ∈ (ns.after.set p.1 (setIns (ns.after.get p.1) p.2)).get p.1
        rw [NMap.get_set]; simp only [if_true]
        exact mem_setIns.mpr (Or.inr rfl)
      · exact r3 p hp

theorem foldl_keeps {α} (f : Nodes → α → Nodes) (hb : ∀ ns a, (f ns a).before = ns.before) (ha : ∀ ns a, (f ns a).after = ns.after) :
    ∀ (l : List α) (ns : Nodes), (l.foldl f ns).before = ns.before ∧ (l.foldl f ns).after = ns.after
  | [], _ => ⟨rfl, rfl⟩
  | a :: l, ns => by
    simp only [List.foldl_cons]
    have ⟨h1, h2⟩ := foldl_keeps f hb ha l (f ns a)
    exact ⟨h1.trans (hb ns a), h2.trans (ha ns a)⟩

theorem buildNodes_spec (g : RGraph) :
    (∀ k j, j ∈ (buildNodes g).before.get k → (j, k) ∈ g.strong) ∧
    (∀ p ∈ g.strong, p.2 ∈ (buildNodes g).after.get p.1) := by
  unfold buildNodes
  have ⟨r1, _, r3⟩ := buildNodes_fold1 [] g.strong {} (fun k j hj => by cases hj)
  have k2 := foldl_keeps (fun (ns : Nodes) (p : Nat × Nat) =>
    { ns with weakBefore := ns.weakBefore.set p.2 (setIns (ns.weakBefore.get p.2) p.1),
              weakAfter := ns.weakAfter.set p.1 (setIns (ns.weakAfter.get p.1) p.2) }) (fun _ _ => rfl) (fun _ _ => rfl) g.weak
  have k3 := foldl_keeps (fun (ns : Nodes) (p : Nat × Nat) =>
    if !(ns.weakBefore.get p.1).contains p.2 then ns else
    let wb := ns.weakBefore.set p.2 (setDel (ns.weakBefore.get p.2) p.1)
    let wb := wb.set p.1 (setDel (wb.get p.1) p.1)
    let wa := ns.weakAfter.set p.1 (setDel (ns.weakAfter.get p.1) p.2)
    let wa := wa.set p.2 (setDel (wa.get p.2) p.2)
    { ns with weakBefore := wb, weakAfter := wa })
    (fun ns a => by dsimp only; split <;> rfl) (fun ns a => by dsimp only; split <;> rfl) g.weak
  simp only []
  constructor
  · intro k j hj
    rw [(k3 _).1, (k2 _).1] at hj
    rcases r1 k j hj with h | h
    · cases h
    · exact h
  · intro p hp
    rw [(k3 _).2, (k2 _).2]
    exact r3 p hp

/-! #### the static facts and the initial state -/

theorem lookupTy_mem {l : List (Ty × Nat)} {t : Ty} {num : Nat} (h : l.lookup t = some num) : (t, num) ∈ l := by
  induction l with
  | nil => simp [List.lookup] at h
  | cons e l ih =>
    obtain ⟨t', n'⟩ := e
    unfold List.lookup at h
    by_cases heq : t == t'
    · simp only [heq] at h
      have : t = t' := by simpa using heq
      cases h; subst this; simp
    · simp only [heq] at h
      exact List.mem_cons_of_mem _ (ih h)

theorem reorderStatic_ok (ti : TyInfo) (funcs : List CP) (hasInit : Bool) :
    SOK (topoStatic funcs (buildGraph ti funcs hasInit)) (buildGraph ti funcs hasInit).cannotReorder := by
  have gi := buildGraph_ginv ti funcs hasInit
  have bn := buildNodes_spec (buildGraph ti funcs hasInit)
  exact
    { nrEq := by rw [gi.cr]; rfl
      beforeLt := fun k j hj => gi.strongLt (j, k) (bn.1 k j hj)
      downGt := fun t num h => gi.down (t, num) (lookupTy_mem h)
      upGt := fun t num h => gi.up (t, num) (lookupTy_mem h) }

/-- reorder.go:262-269: the type nodes of what the init function provides are released up front -/
def pushInit (s : TopoS) (tbl : List (Ty × Nat)) (l : List Ty) (x : Topo) : Topo :=
  l.foldl (fun (x : Topo) t => match tbl.lookup t with | some num => x.pushU s num | none => x) x

theorem topoInit_full (ti : TyInfo) (funcs : List CP) (hasInit : Bool) :
    Nonempty (Full (topoStatic funcs (buildGraph ti funcs hasInit)) (buildGraph ti funcs hasInit).cannotReorder
      (topoInit funcs (buildGraph ti funcs hasInit) hasInit)) := by
  generalize hg : buildGraph ti funcs hasInit = g
  have gi : GInv funcs.length (fun i => !(funcs.getD i default).reorder) g funcs.length := hg ▸ buildGraph_ginv ti funcs hasInit
  have hs : SOK (topoStatic funcs g) g.cannotReorder := hg ▸ reorderStatic_ok ti funcs hasInit
  have bn := buildNodes_spec g
  let x0 : Topo := { after := (buildNodes g).after, weakAfter := (buildNodes g).weakAfter, cannotReorder := g.cannotReorder }
  have c0 : Core (topoStatic funcs g) g.cannotReorder x0 0 :=
    { outNodup := List.nodup_nil
      outLt := fun _ h => by cases h
      doneOut := fun _ h => by cases h
      heapNe := fun e he => by rcases he with he | he <;> cases he
      nrPrefix := by simp [x0]
      heapNR := fun e he => by rcases he with he | he <;> cases he
      pending := fun j a b ha hb => Or.inl (bn.2 (b, a) (gi.chain j a b ha hb)) }
  -- pushes of type nodes keep the invariant
  have hpush : ∀ (l : List Ty) (x : Topo), Core (topoStatic funcs g) g.cannotReorder x 0 → x.cannotReorder = g.cannotReorder → x.done = [] →
      Core (topoStatic funcs g) g.cannotReorder (pushInit (topoStatic funcs g) g.downTypes l x) 0 ∧
      (pushInit (topoStatic funcs g) g.downTypes l x).cannotReorder = g.cannotReorder ∧
      (pushInit (topoStatic funcs g) g.downTypes l x).done = [] := by
    intro l
    induction l with
    | nil => intro x hx hc hd; exact ⟨hx, hc, hd⟩
    | cons t l ih =>
      intro x hx hc hd
      unfold pushInit
      simp only [List.foldl_cons]
      cases hl : g.downTypes.lookup t with
      | none => simp only []; exact ih x hx hc hd
      | some num =>
        simp only []
        refine ih (x.pushU (topoStatic funcs g) num) ?_ hc hd
        have hgt : funcs.length < num := gi.down (t, num) (lookupTy_mem hl)
        unfold Topo.pushU
        refine { outNodup := hx.outNodup, outLt := hx.outLt, doneOut := hx.doneOut, nrPrefix := hx.nrPrefix, pending := hx.pending, heapNe := ?_, heapNR := ?_ }
        · intro e he
          rcases he with he | he
          · rcases List.mem_cons.mp he with rfl | he
            · show num ≠ funcs.length; omega
            · exact hx.heapNe e (Or.inl he)
          · exact hx.heapNe e (Or.inr he)
        · intro e he j hj
          rcases he with he | he
          · rcases List.mem_cons.mp he with rfl | he
            · have hm : num ∈ g.cannotReorder := List.mem_iff_getElem?.mpr ⟨j, hj⟩
              have : num < funcs.length := ((hs.mem num).mp hm).1
              omega
            · exact hx.heapNR e (Or.inl he) j hj
          · exact hx.heapNR e (Or.inr he) j hj
  have fin : ∀ x : Topo, Core (topoStatic funcs g) g.cannotReorder x 0 → x.cannotReorder = g.cannotReorder → x.done = [] →
      Nonempty (Full (topoStatic funcs g) g.cannotReorder x) :=
    fun x hx hc _ => ⟨⟨0, 0, hx, by simp [hc], fun j a hj _ => by omega⟩⟩
  unfold topoInit
  cases hasInit with
  | false => exact fin x0 c0 rfl rfl
  | true =>
    simp only [if_true]
    cases funcs.find? (·.cls == .initFunc) with
    | none => exact fin x0 c0 rfl rfl
    | some f =>
      have ⟨a, b, c⟩ := hpush (noNoType f.out) x0 c0 rfl rfl
      exact fin (pushInit (topoStatic funcs g) g.downTypes (noNoType f.out) x0) a b c

end Nject
