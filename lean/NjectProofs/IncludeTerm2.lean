import NjectProofs.IncludeTerm
/-
  `proposeEliminations`: the keep-closure work list is used up within the fuel the model gives it, so the
  model's answer is the answer of the loop that runs until the list is empty (include.go:530-569).
-/
namespace Nject

/-- how many entries provider `j` can add to the work list when it is first kept -/
def kcW (ch : Chain) (down : Bool) (j : Nat) : Nat :=
  (if down then (ch.get j).usesIn ++ (ch.get j).usesByp else (ch.get j).usesRecv).length

/-- entries on the work list + what the providers not yet kept can add to it -/
def kcMeasure (ch : Chain) (down : Bool) (toKeep keep : List Nat) : Nat :=
  toKeep.length + ((List.range ch.length).map fun j => if keep.contains j then 0 else kcW ch down j).sum

theorem kc_sum_cons (w : Nat → Nat) (keep : List Nat) (i : Nat) (hi : keep.contains i = false) :
    ∀ (l : List Nat), l.Nodup →
      (l.map fun j => if (i :: keep).contains j then 0 else w j).sum + (if i ∈ l then w i else 0)
        = (l.map fun j => if keep.contains j then 0 else w j).sum
  | [], _ => by simp
  | a :: l, hnd => by
    have hnd' := List.nodup_cons.mp hnd
    have ih := kc_sum_cons w keep i hi l hnd'.2
    simp only [List.map_cons, List.sum_cons]
    by_cases hai : a = i
    · subst hai
      have hnot : a ∉ l := hnd'.1
      simp only [hnot, if_false, Nat.add_zero] at ih
      simp only [List.contains_cons, BEq.rfl, Bool.true_or, if_true, List.mem_cons, true_or, hi, Bool.false_eq_true, if_false]
      simp only [List.contains_cons] at ih
      omega
    · have h1 : (i :: keep).contains a = keep.contains a := by
        simp only [List.contains_cons]
        have : (a == i) = false := by simpa using hai
        rw [this, Bool.false_or]
      have h2 : (a = i ∨ i ∈ l) ↔ i ∈ l := by
        constructor
        · rintro (h | h)
          · exact absurd h hai
          · exact h
        · exact Or.inr
      simp only [h1, List.mem_cons]
      have h3 : (i = a ∨ i ∈ l) ↔ i ∈ l := by
        constructor
        · rintro (h | h)
          · exact absurd h.symm hai
          · exact h
        · exact Or.inr
      simp only [h3]
      omega

theorem length_filterMap_le' {α β} (f : α → Option β) (l : List α) : (l.filterMap f).length ≤ l.length := by
  induction l with
  | nil => simp
  | cons a l ih =>
    simp only [List.filterMap_cons]
    split <;> simp <;> omega

/-- **with at least `kcMeasure` units of fuel the result does not depend on the fuel** -/
theorem keepClosure_fuel (ch : Chain) (down : Bool) : ∀ (f1 f2 : Nat) (toKeep keep : List Nat),
    kcMeasure ch down toKeep keep ≤ f1 → kcMeasure ch down toKeep keep ≤ f2 →
      keepClosure ch down f1 toKeep keep = keepClosure ch down f2 toKeep keep
  | f1, f2, [], keep, _, _ => by
    cases f1 <;> cases f2 <;> simp [keepClosure]
  | 0, _, i :: toKeep, keep, h1, _ => by simp [kcMeasure] at h1
  | _ + 1, 0, i :: toKeep, keep, _, h2 => by simp [kcMeasure] at h2
  | f1 + 1, f2 + 1, i :: toKeep, keep, h1, h2 => by
    have hm : kcMeasure ch down (i :: toKeep) keep = kcMeasure ch down toKeep keep + 1 := by simp [kcMeasure]; omega
    simp only [keepClosure]
    split
    · exact keepClosure_fuel ch down f1 f2 toKeep keep (by omega) (by omega)
    · rename_i hk
      have hk' : keep.contains i = false := by simpa using hk
      -- what is appended is at most what provider i could add, and i no longer counts
      have hlen : ∀ (nxt : List Nat), nxt.length ≤ kcW ch down i →
          kcMeasure ch down (toKeep ++ nxt) (i :: keep) ≤ kcMeasure ch down toKeep keep := by
        intro nxt hn
        unfold kcMeasure
        have hs := kc_sum_cons (kcW ch down) keep i hk' (List.range ch.length) List.nodup_range
        rw [List.length_append]
        by_cases hir : i ∈ List.range ch.length
        · simp only [hir, if_true] at hs; omega
        · simp only [hir, if_false, Nat.add_zero] at hs
          have hge : ¬ i < ch.length := by simpa using hir
          have hw : kcW ch down i = 0 := by
            unfold kcW
            rw [get_default_of_ge ch i hge]
            cases down <;> rfl
          omega
      refine keepClosure_fuel ch down f1 f2 _ _ ?_ ?_
      · refine Nat.le_trans (hlen _ ?_) (by omega)
        refine Nat.le_trans (List.length_filter_le _ _) ?_
        refine Nat.le_trans (length_filterMap_le' _ _) ?_
        unfold kcW; exact Nat.le_refl _
      · refine Nat.le_trans (hlen _ ?_) (by omega)
        refine Nat.le_trans (List.length_filter_le _ _) ?_
        refine Nat.le_trans (length_filterMap_le' _ _) ?_
        unfold kcW; exact Nat.le_refl _

theorem map_range_get {α} (g : IP → α) (ch : Chain) : (List.range ch.length).map (fun j => g (ch.get j)) = ch.map g := by
  apply List.ext_getElem
  · simp
  · intro k h1 h2
    have hk : k < ch.length := by simpa using h2
    simp [Chain.get, List.getD, List.getElem?_eq_getElem hk]

theorem sum_le_of_pointwise {α} (f g : α → Nat) (h : ∀ a, f a ≤ g a) : ∀ l : List α, (l.map f).sum ≤ (l.map g).sum
  | [] => by simp
  | a :: l => by
    simp only [List.map_cons, List.sum_cons]
    have := h a
    have := sum_le_of_pointwise f g h l
    omega

/-- the measure at the start of either direction is within the fuel of `proposeEliminations` -/
theorem kcMeasure_start_le (ch : Chain) (down : Bool) (seeds : List Nat) (hs : seeds.length ≤ ch.length) :
    kcMeasure ch down seeds [] ≤ ch.length + (ch.map fun f => (f.usesIn ++ f.usesByp).length + f.usesRecv.length).sum := by
  unfold kcMeasure
  have h1 : ((List.range ch.length).map fun j => if ([] : List Nat).contains j then 0 else kcW ch down j).sum
      = (ch.map fun f => (if down then f.usesIn ++ f.usesByp else f.usesRecv).length).sum := by
    rw [← map_range_get (fun f => (if down then f.usesIn ++ f.usesByp else f.usesRecv).length) ch]
    congr 1
  rw [h1]
  have h2 := sum_le_of_pointwise (fun f : IP => (if down then f.usesIn ++ f.usesByp else f.usesRecv).length)
    (fun f => (f.usesIn ++ f.usesByp).length + f.usesRecv.length) (by
      intro f; cases down <;> simp <;> omega) ch
  omega

end Nject
