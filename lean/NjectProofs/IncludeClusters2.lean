import NjectProofs.IncludeClusters
import NjectProofs.IncludeMarks2
/-
  `clusters` (include.go:120-137) builds coherent cluster lists, and `eliminateUnused` keeps them coherent: the
  elimination rounds of `pruneStages` start from a chain that satisfies `CC`.
-/
namespace Nject

/-- a member is added to the list of leader `l` -/
theorem CC_extend {ch r : Chain} {l i : Nat} {ms0 : List Nat} (hcc : CC ch)
    (hst : ∀ j, (r.get j).c = (ch.get j).c ∧ (r.get j).excluded = (ch.get j).excluded)
    (hcm : ∀ j, (r.get j).clusterMembers = if j = l then some (ms0 ++ [i]) else (ch.get j).clusterMembers)
    (hl : (ch.get l).clusterMembers = some ms0) (hci : (ch.get i).c.cluster = (ch.get l).c.cluster)
    (hexi : (ch.get i).excluded = false) : CC r := by
  have back : ∀ j ms, (r.get j).clusterMembers = some ms →
      (j = l ∧ ms = ms0 ++ [i]) ∨ (j ≠ l ∧ (ch.get j).clusterMembers = some ms) := by
    intro j ms h
    rw [hcm j] at h
    by_cases hj : j = l
    · rw [if_pos hj] at h; exact Or.inl ⟨hj, by injection h with h; exact h.symm⟩
    · rw [if_neg hj] at h; exact Or.inr ⟨hj, h⟩
  have anyOld : ∀ j ms, (r.get j).clusterMembers = some ms → ∃ ms', (ch.get j).clusterMembers = some ms' := by
    intro j ms h
    rcases back j ms h with ⟨hj, _⟩ | ⟨_, h'⟩
    · exact ⟨ms0, hj ▸ hl⟩
    · exact ⟨ms, h'⟩
  exact
    { self := fun j ms h => by
        rcases back j ms h with ⟨hj, hm⟩ | ⟨_, h'⟩
        · rw [hm, hj]; exact List.mem_append_left _ (hcc.self l ms0 hl)
        · exact hcc.self j ms h'
      same := fun j ms h m hm => by
        rw [(hst m).1, (hst j).1]
        rcases back j ms h with ⟨hj, hms⟩ | ⟨_, h'⟩
        · rw [hms] at hm
          rw [hj]
          rcases List.mem_append.mp hm with hm | hm
          · exact hcc.same l ms0 hl m hm
          · have : m = i := by simpa using hm
            rw [this]; exact hci
        · exact hcc.same j ms h' m hm
      nz := fun j ms h => by
        rw [(hst j).1]
        obtain ⟨ms', h'⟩ := anyOld j ms h
        exact hcc.nz j ms' h'
      uniq := fun j j' ms ms' h h' he => by
        obtain ⟨m1, h1⟩ := anyOld j ms h
        obtain ⟨m2, h2⟩ := anyOld j' ms' h'
        rw [(hst j).1, (hst j').1] at he
        exact hcc.uniq j j' m1 m2 h1 h2 he
      coh := fun j ms h hx m hm => by
        rw [(hst m).2]; rw [(hst j).2] at hx
        rcases back j ms h with ⟨hj, hms⟩ | ⟨_, h'⟩
        · rw [hms] at hm
          rcases List.mem_append.mp hm with hm | hm
          · exact hcc.coh l ms0 hl (hj ▸ hx) m hm
          · have : m = i := by simpa using hm
            rw [this]; exact hexi
        · exact hcc.coh j ms h' hx m hm }

/-- a new leader with itself as the only member -/
theorem CC_new {ch r : Chain} {i : Nat} (hcc : CC ch)
    (hst : ∀ j, (r.get j).c = (ch.get j).c ∧ (r.get j).excluded = (ch.get j).excluded)
    (hcm : ∀ j, (r.get j).clusterMembers = if j = i then some [i] else (ch.get j).clusterMembers)
    (hnz : (ch.get i).c.cluster ≠ 0) (hexi : (ch.get i).excluded = false)
    (huniq : ∀ i' ms', (ch.get i').clusterMembers = some ms' → (ch.get i').c.cluster ≠ (ch.get i).c.cluster) : CC r := by
  have back : ∀ j ms, (r.get j).clusterMembers = some ms →
      (j = i ∧ ms = [i]) ∨ (j ≠ i ∧ (ch.get j).clusterMembers = some ms) := by
    intro j ms h
    rw [hcm j] at h
    by_cases hj : j = i
    · rw [if_pos hj] at h; exact Or.inl ⟨hj, by injection h with h; exact h.symm⟩
    · rw [if_neg hj] at h; exact Or.inr ⟨hj, h⟩
  exact
    { self := fun j ms h => by
        rcases back j ms h with ⟨hj, hm⟩ | ⟨_, h'⟩
        · rw [hm, hj]; simp
        · exact hcc.self j ms h'
      same := fun j ms h m hm => by
        rw [(hst m).1, (hst j).1]
        rcases back j ms h with ⟨hj, hms⟩ | ⟨_, h'⟩
        · rw [hms] at hm
          have : m = i := by simpa using hm
          rw [this, hj]
        · exact hcc.same j ms h' m hm
      nz := fun j ms h => by
        rw [(hst j).1]
        rcases back j ms h with ⟨hj, _⟩ | ⟨_, h'⟩
        · rw [hj]; exact hnz
        · exact hcc.nz j ms h'
      uniq := fun j j' ms ms' h h' he => by
        rw [(hst j).1, (hst j').1] at he
        rcases back j ms h with ⟨hj, _⟩ | ⟨_, h1⟩ <;> rcases back j' ms' h' with ⟨hj', _⟩ | ⟨_, h2⟩
        · exact hj.trans hj'.symm
        · rw [hj] at he; exact absurd he.symm (huniq j' ms' h2)
        · rw [hj'] at he; exact absurd he (huniq j ms h1)
        · exact hcc.uniq j j' ms ms' h1 h2 he
      coh := fun j ms h hx m hm => by
        rw [(hst m).2]; rw [(hst j).2] at hx
        rcases back j ms h with ⟨_, hms⟩ | ⟨_, h'⟩
        · rw [hms] at hm
          have : m = i := by simpa using hm
          rw [this]; exact hexi
        · exact hcc.coh j ms h' hx m hm }

theorem lookup_append_one (a b v : Nat) : ∀ (l : List (Nat × Nat)),
    (l ++ [(b, v)]).lookup a = match l.lookup a with
      | some x => some x
      | none => if a == b then some v else none
  | [] => by simp [List.lookup]
  | (k, x) :: l => by
    simp only [List.cons_append, List.lookup]
    cases h : (a == k) with
    | true => simp
    | false => simp only []; exact lookup_append_one a b v l

/-- the body of the loop of `clusters` -/
def clStep (acc : Chain × List (Nat × Nat)) (i : Nat) : Chain × List (Nat × Nat) :=
  let (ch, leaders) := acc
  let fm := ch.get i
  if fm.c.cluster == 0 || fm.excluded then acc else
  let (ch, leaders) :=
    match leaders.lookup fm.c.cluster with
    | some l => ((ch.upd l fun f => { f with clusterMembers := some ((f.clusterMembers.getD []) ++ [i]) }).upd i
                  (fun f => { f with clusterMembers := none }), leaders)
    | none => (ch.upd i fun f => { f with clusterMembers := some [i] }, leaders ++ [(fm.c.cluster, i)])
  let ch := if !fm.c.required && !fm.c.desired && fm.wanted then ch.upd i fun f => { f with wantedInCluster := true } else ch
  (ch, leaders)

theorem clusters_eq (ch : Chain) : clusters ch = ((List.range ch.length).foldl clStep (ch, ([] : List (Nat × Nat)))).1 := rfl

/-- the invariant of the loop: positions below `k` have been looked at -/
structure CI (k : Nat) (ch0 : Chain) (acc : Chain × List (Nat × Nat)) : Prop where
  len : acc.1.length = ch0.length
  st : ∀ j, (acc.1.get j).c = (ch0.get j).c ∧ (acc.1.get j).excluded = (ch0.get j).excluded
  cc : CC acc.1
  fresh : ∀ j, k ≤ j → (acc.1.get j).clusterMembers = none
  l2 : ∀ i ms, (acc.1.get i).clusterMembers = some ms → acc.2.lookup (acc.1.get i).c.cluster = some i
  l3 : ∀ cid l, acc.2.lookup cid = some l → (∃ ms, (acc.1.get l).clusterMembers = some ms) ∧ (acc.1.get l).c.cluster = cid

/-- an update of `wantedInCluster` changes nothing the invariant looks at -/
theorem wic_get (c : Chain) (i j : Nat) (b : Bool) :
    ((if b = true then c.upd i fun f => { f with wantedInCluster := true } else c).get j).c = (c.get j).c ∧
    ((if b = true then c.upd i fun f => { f with wantedInCluster := true } else c).get j).excluded = (c.get j).excluded ∧
    ((if b = true then c.upd i fun f => { f with wantedInCluster := true } else c).get j).clusterMembers = (c.get j).clusterMembers := by
  split
  · rw [get_upd]; split
    · rename_i hj; rw [hj.1]; exact ⟨rfl, rfl, rfl⟩
    · exact ⟨rfl, rfl, rfl⟩
  · exact ⟨rfl, rfl, rfl⟩

theorem wic_length (c : Chain) (i : Nat) (b : Bool) :
    (if b = true then c.upd i fun f => { f with wantedInCluster := true } else c).length = c.length := by
  split
  · exact upd_length _ _ _
  · rfl

theorem clStep_CI {k : Nat} {ch0 : Chain} {acc : Chain × List (Nat × Nat)} (h : CI k ch0 acc) (hk : k < ch0.length) :
    CI (k + 1) ch0 (clStep acc k) := by
  obtain ⟨ch, leaders⟩ := acc
  have hkl : k < ch.length := by rw [h.len]; exact hk
  unfold clStep
  simp only []
  by_cases hskip : ((ch.get k).c.cluster == 0 || (ch.get k).excluded) = true
  · rw [if_pos hskip]
    exact { h with fresh := fun j hj => h.fresh j (by omega) }
  · rw [if_neg hskip]
    have hs : (ch.get k).c.cluster ≠ 0 ∧ (ch.get k).excluded = false := by
      simp only [Bool.or_eq_true, beq_iff_eq, not_or, Bool.not_eq_true] at hskip
      exact hskip
    have hnone : (ch.get k).clusterMembers = none := h.fresh k (Nat.le_refl _)
    cases hlk : leaders.lookup (ch.get k).c.cluster with
    | some l =>
      simp only []
      obtain ⟨⟨ms0, hl⟩, hcl⟩ := h.l3 _ l hlk
      have hlk' : l ≠ k := by intro e; rw [e, hnone] at hl; cases hl
      have hll : l < ch.length := lt_of_clusterMembers hl
      -- the fields of the new chain, position by position
      have hget : ∀ j, (((ch.upd l fun f => { f with clusterMembers := some ((f.clusterMembers.getD []) ++ [k]) }).upd k
          (fun f => { f with clusterMembers := none })).get j).c = (ch.get j).c ∧
          (((ch.upd l fun f => { f with clusterMembers := some ((f.clusterMembers.getD []) ++ [k]) }).upd k
          (fun f => { f with clusterMembers := none })).get j).excluded = (ch.get j).excluded ∧
          (((ch.upd l fun f => { f with clusterMembers := some ((f.clusterMembers.getD []) ++ [k]) }).upd k
          (fun f => { f with clusterMembers := none })).get j).clusterMembers
            = if j = l then some (ms0 ++ [k]) else (ch.get j).clusterMembers := by
        intro j
        rw [get_upd, upd_length]
        by_cases hjk : j = k
        · have : j = k ∧ k < ch.length := ⟨hjk, hkl⟩
          rw [if_pos this, get_upd]
          have hkl' : ¬ (k = l ∧ l < ch.length) := fun hh => hlk' hh.1.symm
          rw [if_neg hkl', hjk, if_neg (fun e => hlk' e.symm)]
          exact ⟨rfl, rfl, hnone.symm⟩
        · have : ¬ (j = k ∧ k < ch.length) := fun hh => hjk hh.1
          rw [if_neg this, get_upd]
          by_cases hjl : j = l
          · have : j = l ∧ l < ch.length := ⟨hjl, hll⟩
            rw [if_pos this, if_pos hjl, hjl]
            refine ⟨rfl, rfl, ?_⟩
            show some (((ch.get l).clusterMembers.getD []) ++ [k]) = some (ms0 ++ [k])
            rw [hl]; rfl
          · have : ¬ (j = l ∧ l < ch.length) := fun hh => hjl hh.1
            rw [if_neg this, if_neg hjl]
            exact ⟨rfl, rfl, rfl⟩
      generalize hr : ((ch.upd l fun f => { f with clusterMembers := some ((f.clusterMembers.getD []) ++ [k]) }).upd k
          (fun f => { f with clusterMembers := none })) = r at hget
      have hrl : r.length = ch.length := by rw [← hr, upd_length, upd_length]
      -- with the optional `wantedInCluster` update on top
      have hfin : ∀ (b : Bool) (j : Nat),
          ((if b = true then r.upd k fun f => { f with wantedInCluster := true } else r).get j).c = (ch.get j).c ∧
          ((if b = true then r.upd k fun f => { f with wantedInCluster := true } else r).get j).excluded = (ch.get j).excluded ∧
          ((if b = true then r.upd k fun f => { f with wantedInCluster := true } else r).get j).clusterMembers
            = if j = l then some (ms0 ++ [k]) else (ch.get j).clusterMembers := by
        intro b j
        have w := wic_get r k j b
        rw [w.1, w.2.1, w.2.2]
        exact hget j
      have hci : (ch.get k).c.cluster = (ch.get l).c.cluster := hcl.symm
      exact
        { len := by show List.length (ite _ _ _) = _; rw [wic_length, hrl]; exact h.len
          st := fun j => ⟨(hfin _ j).1.trans (h.st j).1, (hfin _ j).2.1.trans (h.st j).2⟩
          cc := CC_extend h.cc (fun j => ⟨(hfin _ j).1, (hfin _ j).2.1⟩) (fun j => (hfin _ j).2.2) hl hci hs.2
          fresh := fun j hj => by
            show (Chain.get (ite _ _ _) j).clusterMembers = none
            rw [(hfin _ j).2.2]
            have hlt : l < k := by
              rcases Nat.lt_or_ge l k with hlt | hge
              · exact hlt
              · rw [h.fresh l hge] at hl; cases hl
            rw [if_neg (by omega)]
            exact h.fresh j (by omega)
          l2 := fun i ms hi => by
            show leaders.lookup (Chain.get (ite _ _ _) i).c.cluster = some i
            have hi' : (Chain.get (ite _ _ _) i).clusterMembers = some ms := hi
            rw [(hfin _ i).1]
            rw [(hfin _ i).2.2] at hi'
            by_cases hil : i = l
            · rw [hil]; exact h.l2 l ms0 hl
            · rw [if_neg hil] at hi'; exact h.l2 i ms hi'
          l3 := fun cid l' hlk' => by
            show (∃ ms, (Chain.get (ite _ _ _) l').clusterMembers = some ms) ∧ (Chain.get (ite _ _ _) l').c.cluster = cid
            obtain ⟨⟨ms', h1⟩, h2⟩ := h.l3 cid l' hlk'
            rw [(hfin _ l').1, (hfin _ l').2.2]
            refine ⟨?_, h2⟩
            by_cases hll' : l' = l
            · rw [if_pos hll']; exact ⟨_, rfl⟩
            · rw [if_neg hll']; exact ⟨ms', h1⟩ }
    | none =>
      simp only []
      have hget : ∀ j, ((ch.upd k fun f => { f with clusterMembers := some [k] }).get j).c = (ch.get j).c ∧
          ((ch.upd k fun f => { f with clusterMembers := some [k] }).get j).excluded = (ch.get j).excluded ∧
          ((ch.upd k fun f => { f with clusterMembers := some [k] }).get j).clusterMembers
            = if j = k then some [k] else (ch.get j).clusterMembers := by
        intro j
        rw [get_upd]
        by_cases hjk : j = k
        · have : j = k ∧ k < ch.length := ⟨hjk, hkl⟩
          rw [if_pos this, if_pos hjk, hjk]; exact ⟨rfl, rfl, rfl⟩
        · have : ¬ (j = k ∧ k < ch.length) := fun hh => hjk hh.1
          rw [if_neg this, if_neg hjk]; exact ⟨rfl, rfl, rfl⟩
      generalize hr : (ch.upd k fun f => { f with clusterMembers := some [k] }) = r at hget
      have hrl : r.length = ch.length := by rw [← hr, upd_length]
      have hfin : ∀ (b : Bool) (j : Nat),
          ((if b = true then r.upd k fun f => { f with wantedInCluster := true } else r).get j).c = (ch.get j).c ∧
          ((if b = true then r.upd k fun f => { f with wantedInCluster := true } else r).get j).excluded = (ch.get j).excluded ∧
          ((if b = true then r.upd k fun f => { f with wantedInCluster := true } else r).get j).clusterMembers
            = if j = k then some [k] else (ch.get j).clusterMembers := by
        intro b j
        have w := wic_get r k j b
        rw [w.1, w.2.1, w.2.2]
        exact hget j
      have huniq : ∀ i' ms', (ch.get i').clusterMembers = some ms' → (ch.get i').c.cluster ≠ (ch.get k).c.cluster := by
        intro i' ms' h' he
        have := h.l2 i' ms' h'
        rw [he, hlk] at this; cases this
      exact
        { len := by show List.length (ite _ _ _) = _; rw [wic_length, hrl]; exact h.len
          st := fun j => ⟨(hfin _ j).1.trans (h.st j).1, (hfin _ j).2.1.trans (h.st j).2⟩
          cc := CC_new h.cc (fun j => ⟨(hfin _ j).1, (hfin _ j).2.1⟩) (fun j => (hfin _ j).2.2) hs.1 hs.2 huniq
          fresh := fun j hj => by
            show (Chain.get (ite _ _ _) j).clusterMembers = none
            rw [(hfin _ j).2.2, if_neg (by omega)]
            exact h.fresh j (by omega)
          l2 := fun i ms hi => by
            show (leaders ++ [((ch.get k).c.cluster, k)]).lookup (Chain.get (ite _ _ _) i).c.cluster = some i
            have hi' : (Chain.get (ite _ _ _) i).clusterMembers = some ms := hi
            rw [(hfin _ i).1, lookup_append_one]
            rw [(hfin _ i).2.2] at hi'
            by_cases hik : i = k
            · rw [hik, hlk]; simp
            · rw [if_neg hik] at hi'
              rw [h.l2 i ms hi']
          l3 := fun cid l' hlk' => by
            show (∃ ms, (Chain.get (ite _ _ _) l').clusterMembers = some ms) ∧ (Chain.get (ite _ _ _) l').c.cluster = cid
            rw [(hfin _ l').1, (hfin _ l').2.2]
            have hlk2 : (leaders ++ [((ch.get k).c.cluster, k)]).lookup cid = some l' := hlk'
            rw [lookup_append_one] at hlk2
            cases hold : leaders.lookup cid with
            | some x =>
              rw [hold] at hlk2
              have hx : x = l' := by injection hlk2
              obtain ⟨⟨ms', h1⟩, h2⟩ := h.l3 cid x hold
              rw [← hx]
              refine ⟨?_, h2⟩
              by_cases hxk : x = k
              · rw [if_pos hxk]; exact ⟨_, rfl⟩
              · rw [if_neg hxk]; exact ⟨ms', h1⟩
            | none =>
              rw [hold] at hlk2
              simp only [] at hlk2
              by_cases hc : (cid == (ch.get k).c.cluster) = true
              · rw [if_pos hc] at hlk2
                have hx : k = l' := by injection hlk2
                rw [← hx, if_pos rfl]
                exact ⟨⟨_, rfl⟩, (by simpa using hc : cid = (ch.get k).c.cluster).symm⟩
              · rw [if_neg hc] at hlk2; cases hlk2 } 


theorem cl_foldl_CI {ch0 : Chain} : ∀ (n k : Nat), k + n = ch0.length → ∀ acc, CI k ch0 acc →
    CI (k + n) ch0 ((List.range' k n).foldl clStep acc)
  | 0, _, _, _, h => h
  | n + 1, k, hk, acc, h => by
    rw [List.range'_succ, List.foldl_cons]
    have := cl_foldl_CI n (k + 1) (by omega) (clStep acc k) (clStep_CI h (by omega))
    rw [show k + (n + 1) = k + 1 + n by omega]
    exact this

/-- **`clusters` builds coherent cluster lists** (from a chain in which no list has been built yet) -/
theorem clusters_CC (ch : Chain) (h0 : ∀ j, (ch.get j).clusterMembers = none) :
    CC (clusters ch) ∧ (clusters ch).length = ch.length ∧
    ∀ j, ((clusters ch).get j).c = (ch.get j).c ∧ ((clusters ch).get j).excluded = (ch.get j).excluded := by
  rw [clusters_eq, List.range_eq_range']
  have init : CI 0 ch (ch, ([] : List (Nat × Nat))) :=
    { len := rfl
      st := fun _ => ⟨rfl, rfl⟩
      cc :=
        { self := fun i ms h => by rw [h0 i] at h; cases h
          same := fun i ms h => by rw [h0 i] at h; cases h
          nz := fun i ms h => by rw [h0 i] at h; cases h
          uniq := fun i _ ms _ h => by rw [h0 i] at h; cases h
          coh := fun i ms h => by rw [h0 i] at h; cases h }
      fresh := fun j _ => h0 j
      l2 := fun i ms h => by rw [h0 i] at h; cases h
      l3 := fun cid l h => by cases h }
  have fin := cl_foldl_CI ch.length 0 (by omega) _ init
  exact ⟨fin.cc, fin.len, fin.st⟩

/-- dropping an unused provider (never one of a Cluster) keeps the lists coherent -/
theorem eliminateUnused_CC : ∀ (fuel : Nat) (check : List Nat) (ch : Chain), CC ch →
    CC (eliminateUnused fuel check ch) ∧ (eliminateUnused fuel check ch).length = ch.length
  | 0, _, ch, h => by simp only [eliminateUnused]; exact ⟨h, trivial⟩
  | _ + 1, [], ch, h => by simp only [eliminateUnused]; exact ⟨h, trivial⟩
  | fuel + 1, i :: check, ch, h => by
    simp only [eliminateUnused]
    split
    · exact eliminateUnused_CC fuel check ch h
    · rename_i hskip
      split
      · exact eliminateUnused_CC fuel check ch h
      · have hs : (ch.get i).excluded = false ∧ (ch.get i).c.cluster = 0 := by
          simp only [Bool.or_eq_true, not_or, Bool.not_eq_true, bne_iff_ne, ne_eq, Decidable.not_not] at hskip
          exact ⟨hskip.1.2, hskip.2⟩
        have ec : EC ch (ch.upd i fun f => { f with inc := false, cannot := true, excluded := true }) := by
          refine ⟨upd_length _ _ _, fun j => ?_⟩
          rw [get_upd]; split
          · rename_i hj; rw [hj.1]; exact ⟨rfl, rfl⟩
          · exact ⟨rfl, rfl⟩
        have sp : ∃ b : Bool, ∀ j, ((ch.upd i fun f => { f with inc := false, cannot := true, excluded := true }).get j).excluded
            = (if b = true ∧ j ∈ [i] ∧ j < ch.length then true else (ch.get j).excluded) := by
          refine ⟨true, fun j => ?_⟩
          rw [get_upd]
          by_cases hji : j = i ∧ i < ch.length
          · have hr : true = true ∧ j ∈ [i] ∧ j < ch.length := ⟨rfl, by simp [hji.1], hji.1 ▸ hji.2⟩
            rw [if_pos hji, if_pos hr]
          · have hr : ¬ (true = true ∧ j ∈ [i] ∧ j < ch.length) := by
              rintro ⟨_, hm, hl⟩
              have : j = i := by simpa using hm
              exact hji ⟨this, this ▸ hl⟩
            rw [if_neg hji, if_neg hr]
        have cc' : CC (ch.upd i fun f => { f with inc := false, cannot := true, excluded := true }) := by
          refine CC_after h ec sp ?_
          intro i' ms' h' ⟨m', hm', hmS⟩
          have : m' = i := by simpa using hmS
          have h1 := h.same i' ms' h' m' hm'
          rw [this, hs.2] at h1
          exact absurd h1.symm (h.nz i' ms' h')
        have ⟨r1, r2⟩ := eliminateUnused_CC fuel (check ++ (ch.get i).uses) _ cc'
        exact ⟨r1, by rw [r2, upd_length]⟩

/-- **the elimination rounds of `pruneStages` end within their fuel** (any chain in which no cluster list has been
    built yet): spelled out for the stages of `pruneStages` -/
theorem pruneStages_rounds_fuel (ch : Chain) (h0 : ∀ j, (ch.get j).clusterMembers = none) (extra : Nat) :
    let a := clusters (ch.map fun f => if f.cannot then { f with excluded := true, inc := false } else f)
    let b := eliminateUnused (a.length + (a.map (·.uses.length)).sum + 8) (List.range a.length) a
    proposalLoop (a.length + 1 + extra) b = proposalLoop (a.length + 1) b := by
  intro a b
  have hm : ∀ j, (Chain.get (ch.map fun (f : IP) => if f.cannot then { f with excluded := true, inc := false } else f) j).clusterMembers = none := by
    intro j
    by_cases hj : j < ch.length
    · have : Chain.get (ch.map fun (f : IP) => if f.cannot then { f with excluded := true, inc := false } else f) j
          = (fun f : IP => if f.cannot then { f with excluded := true, inc := false } else f) (ch.get j) := by
        simp [Chain.get, List.getD, List.getElem?_map, List.getElem?_eq_getElem hj]
      rw [this]
      simp only []
      split
      · exact h0 j
      · exact h0 j
    · rw [get_default_of_ge _ j (by simpa using hj)]; rfl
  have ⟨cca, _, _⟩ := clusters_CC _ hm
  have ⟨ccb, lb⟩ := eliminateUnused_CC (a.length + (a.map (·.uses.length)).sum + 8) (List.range a.length) a cca
  have hle := countExcluded_le b
  have hlb : b.length = a.length := lb
  exact proposalLoop_fuel_CC _ _ b ccb (by omega) (by omega)

theorem pruneStages_unfold (ch : Chain) :
    pruneStages ch =
      (let a := clusters (ch.map fun f => if f.cannot then { f with excluded := true, inc := false } else f)
       let b := eliminateUnused (a.length + (a.map (·.uses.length)).sum + 8) (List.range a.length) a
       (proposalLoop (a.length + 1) b).map fun f => { f with cannot := f.excluded }) := rfl

end Nject
