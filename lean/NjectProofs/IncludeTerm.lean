import NjectProofs.IncludeFix
/-
  The validation worklist (`validateChainMarkIncludeExclude` / `checkFlows`) ends: the fuel the model
  gives it is never used up, so `validate` fails only with the errors the implementation reports
  (a Required / wanted provider cannot be included).

  Measure: (number of providers still marked included) + (number not yet marked `cannot`).  A pass over
  the worklist never raises it, and it lowers it whenever it leaves anything to re-check -- a provider is
  put on the redo list only together with a flag change, and flags only ever go one way inside
  `checkFlows`.  So after at most `2·n + 1` passes the redo list is empty.
-/
namespace Nject

/-- providers still marked included + providers not (yet) marked `cannot` -/
def mu (ch : Chain) : Nat := ch.countP (·.inc) + ch.countP (fun f => !f.cannot)

theorem mu_le (ch : Chain) : mu ch ≤ 2 * ch.length := by
  unfold mu
  have a := List.countP_le_length (p := fun f : IP => f.inc) (l := ch)
  have b := List.countP_le_length (p := fun f : IP => !f.cannot) (l := ch)
  omega

theorem localCheck_default (ch : Chain) : localCheck ch default = true := by
  rfl

theorem get_eq_getElem (ch : Chain) (i : Nat) (hi : i < ch.length) : ch.get i = ch[i] := by
  simp [Chain.get, List.getD, List.getElem?_eq_getElem hi]

theorem mu_upd_inc (ch : Chain) (i : Nat) (hi : i < ch.length) (h : (ch.get i).inc = true) :
    mu (ch.upd i fun f => { f with inc := false }) + 1 = mu ch := by
  unfold mu Chain.upd
  rw [List.countP_set hi, List.countP_set hi]
  have hg := get_eq_getElem ch i hi
  have h1 : ch[i].inc = true := by rw [← hg]; exact h
  have hb := List.boole_getElem_le_countP (p := fun f : IP => f.inc) hi
  have hc := List.boole_getElem_le_countP (p := fun f : IP => !f.cannot) hi
  simp only [h1, if_true] at hb ⊢
  rw [hg]
  simp only [Bool.false_eq_true, if_false]
  omega

theorem mu_upd_cannot (ch : Chain) (i : Nat) (hi : i < ch.length) (h : (ch.get i).cannot = false) :
    mu (ch.upd i fun f => { f with cannot := true }) + 1 = mu ch := by
  unfold mu Chain.upd
  rw [List.countP_set hi, List.countP_set hi]
  have hg := get_eq_getElem ch i hi
  have h1 : ch[i].cannot = false := by rw [← hg]; exact h
  have hb := List.boole_getElem_le_countP (p := fun f : IP => f.inc) hi
  have hc := List.boole_getElem_le_countP (p := fun f : IP => !f.cannot) hi
  simp only [h1, Bool.not_false, if_true] at hc ⊢
  rw [hg]
  simp only [Bool.not_true, Bool.false_eq_true, if_false]
  omega

/-- one pass: the measure does not go up, and if it stays the same nothing was put on the redo list -/
theorem checkPass_mu (b : Bool) : ∀ (todo : List Nat) (ch : Chain) (seen redo : List Nat) (ch' : Chain) (redo' : List Nat),
    checkPass b todo ch seen redo = .ok (ch', redo') → mu ch' ≤ mu ch ∧ (mu ch' = mu ch → redo' = redo)
  | [], ch, seen, redo, ch', redo', h => by
    simp only [checkPass] at h
    cases h
    exact ⟨Nat.le_refl _, fun _ => rfl⟩
  | i :: todo, ch, seen, redo, ch', redo', h => by
    simp only [checkPass] at h
    split at h
    · exact checkPass_mu b todo ch seen redo ch' redo' h
    · split at h
      · split at h
        · cases h
        · split at h
          · cases h
          · split at h
            · rename_i hinc
              have hi : i < ch.length := by
                apply Classical.byContradiction
                intro hn
                rw [get_default_of_ge ch i hn] at hinc
                cases hinc
              have hm := mu_upd_inc ch i hi hinc
              have ⟨a, _⟩ := checkPass_mu b todo _ _ _ ch' redo' h
              exact ⟨by omega, fun he => by omega⟩
            · exact checkPass_mu b todo ch _ _ ch' redo' h
      · rename_i hcan
        split at h
        · exact checkPass_mu b todo ch _ _ ch' redo' h
        · rename_i hl
          have hi : i < ch.length := by
            apply Classical.byContradiction
            intro hn
            rw [get_default_of_ge ch i hn] at hl
            exact hl (localCheck_default ch)
          have hm := mu_upd_cannot ch i hi (by simpa using hcan)
          have ⟨a, _⟩ := checkPass_mu b todo _ _ _ ch' redo' h
          exact ⟨by omega, fun he => by omega⟩

theorem checkPass_not_fuel (b : Bool) : ∀ (todo : List Nat) (ch : Chain) (seen redo : List Nat),
    checkPass b todo ch seen redo ≠ .error .fuel
  | [], ch, seen, redo => by simp [checkPass]
  | i :: todo, ch, seen, redo => by
    simp only [checkPass]
    split
    · exact checkPass_not_fuel b todo ch seen redo
    · split
      · split
        · simp
        · split
          · simp
          · split
            · exact checkPass_not_fuel b todo _ _ _
            · exact checkPass_not_fuel b todo _ _ _
      · split
        · exact checkPass_not_fuel b todo _ _ _
        · exact checkPass_not_fuel b todo _ _ _

/-- with `mu ch + 2` units of fuel the worklist loop does not run out -/
theorem checkFlows_not_fuel (b : Bool) : ∀ (fuel : Nat) (todo : List Nat) (ch : Chain), mu ch + 2 ≤ fuel →
    checkFlows b fuel todo ch ≠ .error .fuel
  | 0, _, _, h => by omega
  | fuel + 1, todo, ch, h => by
    simp only [checkFlows]
    split
    · simp
    · cases hp : checkPass b todo ch [] [] with
      | error e =>
        simp only []
        intro he
        injection he with he
        subst he
        exact checkPass_not_fuel b todo ch [] [] hp
      | ok r =>
        obtain ⟨ch1, redo⟩ := r
        simp only []
        have ⟨a, c⟩ := checkPass_mu b todo ch [] [] ch1 redo hp
        by_cases he : mu ch1 = mu ch
        · have hr := c he
          subst hr
          cases fuel with
          | zero => omega
          | succ f => simp [checkFlows]
        · exact checkFlows_not_fuel b fuel redo ch1 (by omega)

theorem markAll_not_fuel : ∀ (todo : List Nat) (ch : Chain) (rem : List Nat), markAll todo ch rem ≠ .error .fuel
  | [], ch, rem => by simp [markAll]
  | i :: rest, ch, rem => by
    simp only [markAll]
    split
    · exact markAll_not_fuel rest _ _
    · split
      · simp
      · exact markAll_not_fuel rest _ _

/-- **the validation never runs out of fuel** -/
theorem validate_never_out_of_fuel (b : Bool) (ch : Chain) : validate b ch ≠ .error .fuel := by
  unfold validate
  cases hm : markAll (List.range ch.length) ch [] with
  | error e =>
    simp only []
    intro he
    injection he with he
    subst he
    exact markAll_not_fuel _ _ _ hm
  | ok r =>
    obtain ⟨ch1, rem⟩ := r
    simp only []
    apply checkFlows_not_fuel
    have h1 := mu_le ch1
    have h2 : ch1.length ≤ ch1.length * ch1.length := Nat.le_mul_self _
    have h3 : 4 * ch1.length * ch1.length = 4 * (ch1.length * ch1.length) := Nat.mul_assoc _ _ _
    omega

end Nject

namespace Nject

/-! ### `eliminateUnused`: the work list is used up within the fuel -/

/-- entries on the work list + what the providers still included can add to it -/
def elimMeasure (check : List Nat) (ch : Chain) : Nat :=
  check.length + (ch.map fun f => if f.inc then f.uses.length else 0).sum

theorem sum_map_set {α} (g : α → Nat) : ∀ (l : List α) (i : Nat) (x : α) (hi : i < l.length),
    ((l.set i x).map g).sum + g l[i] = (l.map g).sum + g x
  | [], i, _, hi => by simp at hi
  | a :: l, 0, x, _ => by simp; omega
  | a :: l, i + 1, x, hi => by
    have hi' : i < l.length := by simpa using hi
    have := sum_map_set g l i x hi'
    simp only [List.set_cons_succ, List.map_cons, List.sum_cons, List.getElem_cons_succ]
    omega

theorem sum_map_upd (φ : IP → Nat) (ch : Chain) (i : Nat) (hi : i < ch.length) (g' : IP → IP) :
    ((ch.upd i g').map φ).sum + φ (ch.get i) = (ch.map φ).sum + φ (g' (ch.get i)) := by
  unfold Chain.upd
  have := sum_map_set φ ch i (g' (ch.get i)) hi
  rw [← get_eq_getElem ch i hi] at this
  exact this

theorem elimMeasure_upd (check : List Nat) (ch : Chain) (i : Nat) (hi : i < ch.length) (hinc : (ch.get i).inc = true) :
    elimMeasure (check ++ (ch.get i).uses) (ch.upd i fun f => { f with inc := false, cannot := true, excluded := true })
      = elimMeasure check ch := by
  unfold elimMeasure
  have := sum_map_upd (fun f : IP => if f.inc then f.uses.length else 0) ch i hi
    (fun f => { f with inc := false, cannot := true, excluded := true })
  simp only [hinc, if_true, Bool.false_eq_true, if_false, Nat.add_zero] at this
  rw [List.length_append]
  omega

/-- **with at least `elimMeasure` units of fuel the result does not depend on the fuel** -/
theorem eliminateUnused_fuel : ∀ (f1 f2 : Nat) (check : List Nat) (ch : Chain),
    elimMeasure check ch ≤ f1 → elimMeasure check ch ≤ f2 → eliminateUnused f1 check ch = eliminateUnused f2 check ch
  | f1, f2, [], ch, _, _ => by
    cases f1 <;> cases f2 <;> simp [eliminateUnused]
  | 0, _, i :: check, ch, h1, _ => by simp [elimMeasure] at h1
  | _ + 1, 0, i :: check, ch, _, h2 => by simp [elimMeasure] at h2
  | f1 + 1, f2 + 1, i :: check, ch, h1, h2 => by
    have hm : elimMeasure (i :: check) ch = elimMeasure check ch + 1 := by simp [elimMeasure]; omega
    simp only [eliminateUnused]
    split
    · exact eliminateUnused_fuel f1 f2 check ch (by omega) (by omega)
    · rename_i hskip
      split
      · exact eliminateUnused_fuel f1 f2 check ch (by omega) (by omega)
      · have hinc : (ch.get i).inc = true := by
          cases hc : (ch.get i).inc with
          | true => rfl
          | false => simp [hc] at hskip
        have hi : i < ch.length := by
          apply Classical.byContradiction
          intro hn
          rw [get_default_of_ge ch i hn] at hinc
          cases hinc
        have := elimMeasure_upd check ch i hi hinc
        exact eliminateUnused_fuel f1 f2 _ _ (by omega) (by omega)

theorem elimMeasure_range_le (ch : Chain) : elimMeasure (List.range ch.length) ch ≤ ch.length + (ch.map (·.uses.length)).sum := by
  unfold elimMeasure
  have : ∀ l : Chain, (l.map fun f => if f.inc then f.uses.length else 0).sum ≤ (l.map (·.uses.length)).sum := by
    intro l
    induction l with
    | nil => simp
    | cons a l ih =>
      simp only [List.map_cons, List.sum_cons]
      split <;> omega
  have := this ch
  simp only [List.length_range]
  omega

end Nject
