#!/bin/sh
# Build the framework offline from files on disk: Lean model + proofs + driver, Go harness and extractor.
set -e
cd "$(dirname "$0")"
export GOFLAGS=-mod=mod GOPROXY=off GOSUMDB=off GOTOOLCHAIN=local
# the tables under lean/NjectGen are regenerated from /repo (every check does this again)
mkdir -p .cache/bin
(cd extract && go build -o ../.cache/bin/extract-setup . && ../.cache/bin/extract-setup "${VERIF_REPO:-/repo}" ../lean/NjectGen >/dev/null)
(cd lean && lake build)
mkdir -p .cache/bin evidence
cp /repo/go.sum harness/go.sum
(cd harness && go build -tags verif -o ../.cache/bin/harness-setup .)
echo setup ok
